/-
  C11 — mate announcements are truthful in sign and distance (the conversion part).

  Model: `Jence.scoreField`, the score-to-`mate N` conversion in `search` (`src/search.rs`).
  A root score `MATE_VALUE − p` means "the opponent is checkmated `p` plies from now" (p odd: the mover delivers the
  mate with its ((p+1)/2)-th move); `−MATE_VALUE + p` means "the mover is checkmated `p` plies from now" (p even: after
  p/2 of its own moves). That a mate score really is such a distance is an invariant of the search (terminal nodes score
  `−MATE_VALUE + ply`, every level negates); what is proved here is that the printed number is the right function of it.
-/
import Jence.Model.Search
import Jence.Lemmas.ForcedMate
import Jence.Lemmas.MateInOne
import Jence.Lemmas.IdVal
namespace Jence.Props.C11
open Jence

/-- the range of plies for which a score counts as a mate score -/
def inMateRange (p : Int) : Prop := 0 ≤ p ∧ p < Gen.MATE_VALUE - Gen.MATE_BOUND

/-- the only facts about the tuning constants the conversion needs (re-checked whenever they are re-tuned) -/
theorem consts_ok : 0 ≤ Gen.MATE_BOUND ∧ Gen.MATE_BOUND < Gen.MATE_VALUE := by decide

/-- **T11.1a** The mover mates: a score `MATE_VALUE − p` with `p` odd is announced as `mate (p+1)/2`
    (`p = 1`: mate in one, a PV of `2N − 1 = p` plies). -/
theorem mate_for_mover (p : Int) (hr : inMateRange p) (hodd : p % 2 = 1) :
    scoreField (Gen.MATE_VALUE - p) = .mate ((p + 1) / 2) := by
  obtain ⟨h0, h1⟩ := hr
  obtain ⟨hb0, hbv⟩ := consts_ok
  unfold scoreField
  generalize Gen.MATE_VALUE = V at *
  generalize Gen.MATE_BOUND = B at *
  have c1 : ¬ ((V - p ≥ -V) ∧ (V - p < -B)) := by omega
  have c2 : (V - p ≤ V) ∧ (V - p > B) := by omega
  simp only [Bool.and_eq_true, decide_eq_true_eq, c1, c2, and_self, ↓reduceIte, ScoreField.mate.injEq]
  rw [Int.tdiv_eq_ediv_of_nonneg (by omega)]
  omega

/-- **T11.1b** The mover is mated: a score `−MATE_VALUE + p` with `p` even and positive is announced as `mate −p/2`
    (`p = 2`: every move allows mate next move, `mate −1`, a PV of `2|N| = p` plies). -/
theorem mate_against_mover (p : Int) (hr : inMateRange p) (hpos : 0 < p) (heven : p % 2 = 0) :
    scoreField (-Gen.MATE_VALUE + p) = .mate (-(p / 2)) := by
  obtain ⟨h0, h1⟩ := hr
  obtain ⟨hb0, hbv⟩ := consts_ok
  unfold scoreField
  generalize Gen.MATE_VALUE = V at *
  generalize Gen.MATE_BOUND = B at *
  have c1 : ((-V + p ≥ -V) ∧ (-V + p < -B)) := by omega
  simp only [Bool.and_eq_true, decide_eq_true_eq, c1, and_self, ↓reduceIte, ScoreField.mate.injEq]
  have : -(-V + p + V) = -p := by omega
  rw [this, Int.neg_tdiv, Int.tdiv_eq_ediv_of_nonneg (by omega)]

/-- **T11.1c** Scores outside the two mate ranges are printed as centipawns, unchanged. -/
theorem cp_outside_mate_range (s : Int) (h : -Gen.MATE_BOUND ≤ s ∧ s ≤ Gen.MATE_BOUND) : scoreField s = .cp s := by
  obtain ⟨hb0, hbv⟩ := consts_ok
  unfold scoreField
  generalize Gen.MATE_VALUE = V at *
  generalize Gen.MATE_BOUND = B at *
  have c1 : ¬ ((s ≥ -V) ∧ (s < -B)) := by omega
  have c2 : ¬ ((s ≤ V) ∧ (s > B)) := by omega
  simp [c1, c2]

/-- the sign is right: `mate N` with `N > 0` for positive mate scores, `N < 0` for negative ones (p ≥ 2) -/
theorem mate_sign (p : Int) (hr : inMateRange p) (hp : 2 ≤ p) :
    (∃ n, scoreField (Gen.MATE_VALUE - p) = .mate n ∧ 0 < n) ∧ (∃ n, scoreField (-Gen.MATE_VALUE + p) = .mate n ∧ n < 0) := by
  obtain ⟨h0, h1⟩ := hr
  obtain ⟨hb0, hbv⟩ := consts_ok
  unfold scoreField
  generalize Gen.MATE_VALUE = V at *
  generalize Gen.MATE_BOUND = B at *
  have c1 : ¬ ((V - p ≥ -V) ∧ (V - p < -B)) := by omega
  have c2 : (V - p ≤ V) ∧ (V - p > B) := by omega
  have c3 : ((-V + p ≥ -V) ∧ (-V + p < -B)) := by omega
  simp only [Bool.and_eq_true, decide_eq_true_eq, c1, c2, c3, and_self, ↓reduceIte, ScoreField.mate.injEq, exists_eq_left']
  refine ⟨?_, ?_⟩
  · rw [Int.tdiv_eq_ediv_of_nonneg (by omega)]; omega
  · have : -(-V + p + V) = -p := by omega
    rw [this, Int.neg_tdiv, Int.tdiv_eq_ediv_of_nonneg (by omega)]; omega

/-! ### T11.2 (part) - a mate announcement backed by a minimax value is a forced mate of at most that distance

  `MatesIn R n g` / `MatedIn R n g` (`Lemmas/ForcedMate`): the side to move at `g` can force checkmate within `n` plies /
  is checkmated within `n` plies whatever it plays - defined over the moves the rules instance generates and `make`
  accepts, with no reference to scores. `EvalInv R P`: on a set `P` of positions closed under the moves, the static
  evaluation stays strictly inside `(−MATE_BOUND, MATE_BOUND)` (for chess that is T16.5 `eval_bounded` on positions with
  one king and at most fifteen other men a side). -/

/-- **T11.2a** Every depth, fuel, game history and rules instance: when the plain minimax value of the root (`nVal`,
    T19.2: check extension, quiescence at the horizon, mate by distance, stalemate and history positions 0) is announced
    as `mate N`, then for `N > 0` the side to move can force checkmate within `2N − 1` plies (its `N`-th move mates at
    the latest) and for `N < 0` it is checkmated within `2|N|` plies whatever it plays (`N = −1`: every move it has
    allows mate next move). The capture search and the evaluation cannot produce such a score (`qVal_bound`). -/
theorem announced_value_is_forced_mate (R : Rules) (P : Game → Prop) (hI : EvalInv R P) (H : List UInt64) (fuel : Nat)
    (g : Game) (depth : Nat) (hP : P g) (N : Int) (hs : scoreField (nVal R H fuel g depth 0) = .mate N) :
    (0 < N → MatesIn R (2 * N.toNat - 1) g) ∧ (N < 0 → MatedIn R (2 * (-N).toNat) g) := by
  obtain ⟨hb0, hbv⟩ := consts_ok
  have hm := nVal_mate R P hI H fuel g depth 0 hP
  generalize nVal R H fuel g depth 0 = v at hs hm
  unfold scoreField at hs
  by_cases c1 : (v ≥ -Gen.MATE_VALUE ∧ v < -Gen.MATE_BOUND)
  · have c1' : (decide (v ≥ -Gen.MATE_VALUE) && decide (v < -Gen.MATE_BOUND)) = true := by simp [c1]
    rw [if_pos c1'] at hs
    simp only [ScoreField.mate.injEq] at hs
    obtain ⟨n, hn, hd⟩ := hm.2 c1.2
    have hN : N = -((n : Int) / 2) := by
      rw [← hs, hn]
      have : -(-Gen.MATE_VALUE + ((0 + n : Nat) : Int) + Gen.MATE_VALUE) = -(n : Int) := by push_cast; omega
      rw [this, Int.neg_tdiv, Int.tdiv_eq_ediv_of_nonneg (Int.natCast_nonneg _)]
    refine ⟨fun h => by omega, fun _ => ?_⟩
    have : (-N).toNat = n / 2 := by rw [hN]; omega
    rw [this]
    exact hd.even R
  · have c1' : ¬ ((decide (v ≥ -Gen.MATE_VALUE) && decide (v < -Gen.MATE_BOUND)) = true) := by simpa using c1
    rw [if_neg c1'] at hs
    by_cases c2 : (v ≤ Gen.MATE_VALUE ∧ v > Gen.MATE_BOUND)
    · have c2' : (decide (v ≤ Gen.MATE_VALUE) && decide (v > Gen.MATE_BOUND)) = true := by simp [c2]
      rw [if_pos c2'] at hs
      simp only [ScoreField.mate.injEq] at hs
      obtain ⟨n, hn, hd⟩ := hm.1 c2.2
      have hN : N = (n : Int) / 2 + 1 := by
        rw [← hs, hn]
        have : Gen.MATE_VALUE - (Gen.MATE_VALUE - ((0 + n : Nat) : Int)) = (n : Int) := by push_cast; omega
        rw [this, Int.tdiv_eq_ediv_of_nonneg (Int.natCast_nonneg _)]
      refine ⟨fun _ => ?_, fun h => by omega⟩
      have : N.toNat = n / 2 + 1 := by rw [hN]; omega
      rw [this]
      exact hd.mono R (by omega)
    · have c2' : ¬ ((decide (v ≤ Gen.MATE_VALUE) && decide (v > Gen.MATE_BOUND)) = true) := by simpa using c2
      rw [if_neg c2'] at hs
      cases hs

/-- a bound on the side the search reports is enough: a score at least as large as a value... -/
theorem forced_of_lower_bound (R : Rules) (P : Game → Prop) (hI : EvalInv R P) (H : List UInt64) (fuel : Nat)
    (g : Game) (depth : Nat) (hP : P g) (s : Int) (hle : s ≤ nVal R H fuel g depth 0) (N : Int) (hN : 0 < N)
    (hs : scoreField s = .mate N) : MatesIn R (2 * N.toNat - 1) g := by
  obtain ⟨hb0, hbv⟩ := consts_ok
  have hm := nVal_mate R P hI H fuel g depth 0 hP
  generalize nVal R H fuel g depth 0 = v at hle hm
  unfold scoreField at hs
  by_cases c1 : (s ≥ -Gen.MATE_VALUE ∧ s < -Gen.MATE_BOUND)
  · have c1' : (decide (s ≥ -Gen.MATE_VALUE) && decide (s < -Gen.MATE_BOUND)) = true := by simp [c1]
    rw [if_pos c1'] at hs
    simp only [ScoreField.mate.injEq] at hs
    have : Int.tdiv (-(s + Gen.MATE_VALUE)) 2 ≤ 0 := by
      have h0 : -(s + Gen.MATE_VALUE) ≤ 0 := by omega
      have := Int.neg_tdiv (s + Gen.MATE_VALUE) 2
      rw [this, Int.tdiv_eq_ediv_of_nonneg (by omega)]; omega
    omega
  · have c1' : ¬ ((decide (s ≥ -Gen.MATE_VALUE) && decide (s < -Gen.MATE_BOUND)) = true) := by simpa using c1
    rw [if_neg c1'] at hs
    by_cases c2 : (s ≤ Gen.MATE_VALUE ∧ s > Gen.MATE_BOUND)
    · have c2' : (decide (s ≤ Gen.MATE_VALUE) && decide (s > Gen.MATE_BOUND)) = true := by simp [c2]
      rw [if_pos c2'] at hs
      simp only [ScoreField.mate.injEq] at hs
      obtain ⟨n, hn, hd⟩ := hm.1 (by omega)
      rw [Int.tdiv_eq_ediv_of_nonneg (by omega)] at hs
      refine hd.mono R ?_
      push_cast at hn
      omega
    · have c2' : ¬ ((decide (s ≤ Gen.MATE_VALUE) && decide (s > Gen.MATE_BOUND)) = true) := by simpa using c2
      rw [if_neg c2'] at hs
      cases hs

theorem forced_of_upper_bound (R : Rules) (P : Game → Prop) (hI : EvalInv R P) (H : List UInt64) (fuel : Nat)
    (g : Game) (depth : Nat) (hP : P g) (s : Int) (hle : nVal R H fuel g depth 0 ≤ s) (N : Int) (hN : N < 0)
    (hs : scoreField s = .mate N) : MatedIn R (2 * (-N).toNat) g := by
  obtain ⟨hb0, hbv⟩ := consts_ok
  have hm := nVal_mate R P hI H fuel g depth 0 hP
  generalize nVal R H fuel g depth 0 = v at hle hm
  unfold scoreField at hs
  by_cases c1 : (s ≥ -Gen.MATE_VALUE ∧ s < -Gen.MATE_BOUND)
  · have c1' : (decide (s ≥ -Gen.MATE_VALUE) && decide (s < -Gen.MATE_BOUND)) = true := by simp [c1]
    rw [if_pos c1'] at hs
    simp only [ScoreField.mate.injEq] at hs
    obtain ⟨n, hn, hd⟩ := hm.2 (by omega)
    have e : -(s + Gen.MATE_VALUE) = -(s + Gen.MATE_VALUE) := rfl
    rw [Int.neg_tdiv, Int.tdiv_eq_ediv_of_nonneg (by omega)] at hs
    refine (hd.even R).mono R ?_
    push_cast at hn
    omega
  · have c1' : ¬ ((decide (s ≥ -Gen.MATE_VALUE) && decide (s < -Gen.MATE_BOUND)) = true) := by simpa using c1
    rw [if_neg c1'] at hs
    by_cases c2 : (s ≤ Gen.MATE_VALUE ∧ s > Gen.MATE_BOUND)
    · have c2' : (decide (s ≤ Gen.MATE_VALUE) && decide (s > Gen.MATE_BOUND)) = true := by simp [c2]
      rw [if_pos c2'] at hs
      simp only [ScoreField.mate.injEq] at hs
      rw [Int.tdiv_eq_ediv_of_nonneg (by omega)] at hs
      omega
    · have c2' : ¬ ((decide (s ≤ Gen.MATE_VALUE) && decide (s > Gen.MATE_BOUND)) = true) := by simpa using c2
      rw [if_neg c2'] at hs
      cases hs

/-- **T11.2b (partial: nominal depths 1 and 2, table bypassed)** Every iteration of depth at most 2 that the deepening
    loop runs, in a run that was neither stopped nor overflowed: when its score is printed as `mate N` with `N > 0` and
    is not a fail-low (`score > alpha`), the side to move can force checkmate within `2N − 1` plies; when `N < 0` and it
    is not a fail-high (`score < beta`), the side to move is checkmated within `2|N|` plies. Through T19.3 the score is the
    minimax value inside the window and bounds it on the reported side outside. Missing for the full T11.2: iterations
    of depth >= 3 (null move, reductions, table cut-offs), validated against the rules' exhaustive mate search instead. -/
theorem shallow_mate_announcement_is_forced_partial (R : Rules) (cfg : Cfg) (hbyp : cfg.ttBypass = true) (g : Game)
    (H : List UInt64) (count cur : Nat) (alpha beta score : Int) (e : Env) (hab : alpha < beta) (hp : e.ply = 0)
    (hH : e.rep.pre = H) (hclean : Clean (idLoop R cfg g count cur alpha beta score e).2.2)
    (P : Game → Prop) (hI : EvalInv R P) (hP : P g) :
    ∀ it ∈ idTrace R cfg g count cur alpha beta e, it.depth ≤ 2 → ∀ N, scoreField it.score = .mate N →
      (0 < N → it.alpha < it.score → MatesIn R (2 * N.toNat - 1) g) ∧
      (N < 0 → it.score < it.beta → MatedIn R (2 * (-N).toNat) g) := by
  intro it hit hd N hs
  obtain ⟨hwin, hsound⟩ := idLoop_value R cfg hbyp g H count cur alpha beta score e hab hp hH hclean it hit hd
  obtain ⟨s1, s2, s3⟩ := hsound
  refine ⟨fun hN hlo => ?_, fun hN hhi => ?_⟩
  · refine forced_of_lower_bound R P hI H negaFuel g it.depth hP it.score ?_ N hN hs
    by_cases hb : it.score ≥ it.beta
    · exact s2 hb
    · rw [s3 hlo (by omega)]; exact Int.le_refl _
  · refine forced_of_upper_bound R P hI H negaFuel g it.depth hP it.score ?_ N hN hs
    by_cases ha : it.score ≤ it.alpha
    · exact s1 ha
    · rw [s3 (by omega) hhi]; exact Int.le_refl _

/-! Non-vacuity: a toy rules instance in which the mover mates in one (one move, after which the opponent is in check
    without a move); `EvalInv` holds with `P := fun _ => True`; the value at depth 2 is `MATE_VALUE − 1`, announced as
    `mate 1`, and `MatesIn 1` holds. -/
def toyMate : Rules where
  generate := fun g b => if b && g.halfMoves == 0 then [Move.null] else []
  make := fun g _ => if g.halfMoves == 0 then some { g with halfMoves := 1 } else none
  inCheck := fun g => g.halfMoves == 1
  evaluate := fun _ => 7
  nullMove := id
  firstLegal := fun _ => none
theorem toyMate_inv : EvalInv toyMate (fun _ => True) := ⟨fun _ _ _ _ _ => trivial, fun _ _ => by show -Gen.MATE_BOUND < (7 : Int) ∧ (7 : Int) < Gen.MATE_BOUND; decide⟩
example : scoreField (nVal toyMate [] 3 default 2 0) = .mate 1 := by decide +kernel
example : MatesIn toyMate 1 default :=
  (announced_value_is_forced_mate toyMate _ toyMate_inv [] 3 default 2 trivial 1 (by decide +kernel)).1 (by decide)

/-! ### T11.3 (part) - a mate in one is announced as `mate 1` -/

/-- **T11.3a** When the side to move has a generated move that `make` accepts and that leaves the opponent checkmated
    (in check, no move can be made), the plain minimax value of the root at every nominal depth from 2 on is
    `MATE_VALUE − 1`, which is announced as `mate 1` - for every rules instance with a bounded evaluation (`EvalInv`),
    game history, and fuel, provided neither the root nor the mated position is at half-move clock 100 (where the engine
    hands over to the capture search) and the mated position is not one of the game history (it would score as a draw
    first). At nominal depth 1 the mated position is at the horizon, where the engine's capture search does not look for
    mate - which is why the property starts at a higher depth. -/
theorem mate_in_one_value_is_announced (R : Rules) (P : Game → Prop) (hI : EvalInv R P) (H : List UInt64) (fuel : Nat)
    (g : Game) (depth : Nat) (hP : P g) (hd : 2 ≤ depth) (hhm : (g.halfMoves == 100) = false)
    (m : Move) (hm : m ∈ R.generate g true) (c : Game) (hmk : R.make g m = some c) (hmated : Mated R c)
    (hcH : H.contains c.key = false) (hchm : (c.halfMoves == 100) = false) :
    scoreField (nVal R H (fuel + 2) g depth 0) = .mate 1 := by
  rw [nVal_mate_in_one R P hI H fuel g depth hP hd hhm m hm c hmk hmated hcH hchm]
  decide

/-- **T11.3b (partial: the depth-2 iteration, table bypassed)** In a run that was neither stopped nor overflowed, the
    iteration of nominal depth 2 announces `mate 1` whenever its score lies inside its aspiration window and the side to
    move has a mating move. Missing for the full T11.3: the iterations of depth >= 3 (validated by the mate oracle). -/
theorem mate_in_one_found_at_depth_two_partial (R : Rules) (cfg : Cfg) (hbyp : cfg.ttBypass = true) (g : Game)
    (H : List UInt64) (count cur : Nat) (alpha beta score : Int) (e : Env) (hab : alpha < beta) (hp : e.ply = 0)
    (hH : e.rep.pre = H) (hclean : Clean (idLoop R cfg g count cur alpha beta score e).2.2)
    (P : Game → Prop) (hI : EvalInv R P) (hP : P g) (hhm : (g.halfMoves == 100) = false)
    (m : Move) (hm : m ∈ R.generate g true) (c : Game) (hmk : R.make g m = some c) (hmated : Mated R c)
    (hcH : H.contains c.key = false) (hchm : (c.halfMoves == 100) = false) :
    ∀ it ∈ idTrace R cfg g count cur alpha beta e, it.depth = 2 → it.alpha < it.score → it.score < it.beta →
      scoreField it.score = .mate 1 := by
  intro it hit hd hlo hhi
  obtain ⟨_, _, _, s3⟩ := idLoop_value R cfg hbyp g H count cur alpha beta score e hab hp hH hclean it hit (by omega)
  have hv := s3 hlo hhi
  have hf : negaFuel = (negaFuel - 2) + 2 := by decide
  rw [hd, hf] at hv
  rw [← hv]
  exact mate_in_one_value_is_announced R P hI H (negaFuel - 2) g 2 hP (by omega) hhm m hm c hmk hmated hcH hchm

/-- non-vacuity: the toy instance above meets every hypothesis of T11.3a -/
example : scoreField (nVal toyMate [] (1 + 2) default 2 0) = .mate 1 :=
  mate_in_one_value_is_announced toyMate _ toyMate_inv [] 1 default 2 trivial (by decide) (by decide) Move.null
    (by decide) { (default : Game) with halfMoves := 1 } rfl ⟨by decide, by decide⟩ (by decide) (by decide)

/-! ### what the announcements promise, spelled out -/
/-- what `mate 1` promises, spelled out: some move that can be made leaves the opponent checkmated -/
theorem mate_one_means (R : Rules) (g : Game) :
    MatesIn R 1 g ↔ ∃ m ∈ R.generate g true, ∃ c, R.make g m = some c ∧ Mated R c := by
  simp only [MatesIn, MatedIn]

/-- what `mate −1` promises, spelled out (the property's "N = −1: every legal move allows mate next move"): the side to
    move is checkmated already, or it has a move and every move it can make allows a mating reply -/
theorem mated_one_means (R : Rules) (g : Game) :
    MatedIn R 2 g ↔ Mated R g ∨
      ((∃ m ∈ R.generate g true, ∃ c, R.make g m = some c) ∧
       ∀ m ∈ R.generate g true, ∀ c, R.make g m = some c →
         ∃ m' ∈ R.generate c true, ∃ c', R.make c m' = some c' ∧ Mated R c') := by
  simp only [MatesIn, MatedIn]

/-- `mate 0` is announced for a root value only when the side to move is checkmated already (the rule the check applies
    to every info line: no `mate 0` where the position has a legal move) -/
theorem mate_zero_means_mated (R : Rules) (P : Game → Prop) (hI : EvalInv R P) (H : List UInt64) (fuel : Nat)
    (g : Game) (depth : Nat) (hP : P g) (hs : scoreField (nVal R H fuel g depth 0) = .mate 0) : Mated R g := by
  obtain ⟨hb0, hbv⟩ := consts_ok
  have hm := nVal_mate R P hI H fuel g depth 0 hP
  generalize nVal R H fuel g depth 0 = v at hs hm
  unfold scoreField at hs
  by_cases c1 : (v ≥ -Gen.MATE_VALUE ∧ v < -Gen.MATE_BOUND)
  · have c1' : (decide (v ≥ -Gen.MATE_VALUE) && decide (v < -Gen.MATE_BOUND)) = true := by simp [c1]
    rw [if_pos c1'] at hs
    simp only [ScoreField.mate.injEq] at hs
    obtain ⟨n, hn, hd⟩ := hm.2 c1.2
    have hN : (n : Int) / 2 = 0 := by
      rw [hn] at hs
      have : -(-Gen.MATE_VALUE + ((0 + n : Nat) : Int) + Gen.MATE_VALUE) = -(n : Int) := by push_cast; omega
      rw [this, Int.neg_tdiv, Int.tdiv_eq_ediv_of_nonneg (Int.natCast_nonneg _)] at hs
      omega
    have h2 : n / 2 = 0 := by omega
    have := hd.even R
    rw [h2] at this
    simpa only [MatedIn] using this
  · have c1' : ¬ ((decide (v ≥ -Gen.MATE_VALUE) && decide (v < -Gen.MATE_BOUND)) = true) := by simpa using c1
    rw [if_neg c1'] at hs
    by_cases c2 : (v ≤ Gen.MATE_VALUE ∧ v > Gen.MATE_BOUND)
    · have c2' : (decide (v ≤ Gen.MATE_VALUE) && decide (v > Gen.MATE_BOUND)) = true := by simp [c2]
      rw [if_pos c2'] at hs
      simp only [ScoreField.mate.injEq] at hs
      rw [Int.tdiv_eq_ediv_of_nonneg (by omega)] at hs
      omega
    · have c2' : ¬ ((decide (v ≤ Gen.MATE_VALUE) && decide (v > Gen.MATE_BOUND)) = true) := by simpa using c2
      rw [if_neg c2'] at hs
      cases hs

/-! Non-vacuity and the concrete cases the property names. -/
example : inMateRange 1 ∧ (1 : Int) % 2 = 1 := by unfold inMateRange; decide
example : scoreField (Gen.MATE_VALUE - 1) = .mate 1 := by decide          -- mate in one
example : scoreField (-Gen.MATE_VALUE + 2) = .mate (-1) := by decide       -- mated in one
example : scoreField (Gen.MATE_VALUE - 3) = .mate 2 := by decide
example : scoreField (-Gen.MATE_VALUE + 4) = .mate (-2) := by decide

/-- **T11.0** Before commit `31eef30` a position that is mated in one (score `−MATE_VALUE + 2`, e.g.
    `k7/8/1K6/8/8/8/8/7R b`, replay `replays/prefix/D5_mated_in_one.out`) was announced as `mate −2`. -/
theorem legacy_counterexample : scoreFieldLegacy (-Gen.MATE_VALUE + 2) = .mate (-2) := by decide

end Jence.Props.C11
