/-
  C11 — mate announcements are truthful in sign and distance (the conversion part).

  Model: `Jence.scoreField`, the score-to-`mate N` conversion in `search` (`src/search.rs`).
  A root score `MATE_VALUE − p` means "the opponent is checkmated `p` plies from now" (p odd: the mover delivers the
  mate with its ((p+1)/2)-th move); `−MATE_VALUE + p` means "the mover is checkmated `p` plies from now" (p even: after
  p/2 of its own moves). That a mate score really is such a distance is an invariant of the search (terminal nodes score
  `−MATE_VALUE + ply`, every level negates); what is proved here is that the printed number is the right function of it.
-/
import Jence.Model.Search
namespace Jence.Props.C11
open Jence

/-- the range of plies for which a score counts as a mate score -/
def inMateRange (p : Int) : Prop := 0 ≤ p ∧ p < Gen.MATE_VALUE - Gen.MATE_BOUND

/-- the only facts about the tuning constants the conversion needs (re-checked whenever they are re-tuned) -/
theorem consts_ok : 0 ≤ Gen.MATE_BOUND ∧ Gen.MATE_BOUND < Gen.MATE_VALUE := by decide

/-- **T11.1a** The mover mates: a score `MATE_VALUE − p` with `p` odd is announced as `mate (p+1)/2`
    (`p = 1`: mate in one, a PV of `2N − 1 = p` plies). -/
theorem mate_for_mover (p : Int) (hr : inMateRange p) (hodd : p % 2 = 1) :
    scoreField (Gen.MATE_VALUE - p) = .mate ((p + 1) / 2) := by
  obtain ⟨h0, h1⟩ := hr
  obtain ⟨hb0, hbv⟩ := consts_ok
  unfold scoreField
  generalize Gen.MATE_VALUE = V at *
  generalize Gen.MATE_BOUND = B at *
  have c1 : ¬ ((V - p ≥ -V) ∧ (V - p < -B)) := by omega
  have c2 : (V - p ≤ V) ∧ (V - p > B) := by omega
  simp only [Bool.and_eq_true, decide_eq_true_eq, c1, c2, and_self, ↓reduceIte, ScoreField.mate.injEq]
  rw [Int.tdiv_eq_ediv_of_nonneg (by omega)]
  omega

/-- **T11.1b** The mover is mated: a score `−MATE_VALUE + p` with `p` even and positive is announced as `mate −p/2`
    (`p = 2`: every move allows mate next move, `mate −1`, a PV of `2|N| = p` plies). -/
theorem mate_against_mover (p : Int) (hr : inMateRange p) (hpos : 0 < p) (heven : p % 2 = 0) :
    scoreField (-Gen.MATE_VALUE + p) = .mate (-(p / 2)) := by
  obtain ⟨h0, h1⟩ := hr
  obtain ⟨hb0, hbv⟩ := consts_ok
  unfold scoreField
  generalize Gen.MATE_VALUE = V at *
  generalize Gen.MATE_BOUND = B at *
  have c1 : ((-V + p ≥ -V) ∧ (-V + p < -B)) := by omega
  simp only [Bool.and_eq_true, decide_eq_true_eq, c1, and_self, ↓reduceIte, ScoreField.mate.injEq]
  have : -(-V + p + V) = -p := by omega
  rw [this, Int.neg_tdiv, Int.tdiv_eq_ediv_of_nonneg (by omega)]

/-- **T11.1c** Scores outside the two mate ranges are printed as centipawns, unchanged. -/
theorem cp_outside_mate_range (s : Int) (h : -Gen.MATE_BOUND ≤ s ∧ s ≤ Gen.MATE_BOUND) : scoreField s = .cp s := by
  obtain ⟨hb0, hbv⟩ := consts_ok
  unfold scoreField
  generalize Gen.MATE_VALUE = V at *
  generalize Gen.MATE_BOUND = B at *
  have c1 : ¬ ((s ≥ -V) ∧ (s < -B)) := by omega
  have c2 : ¬ ((s ≤ V) ∧ (s > B)) := by omega
  simp [c1, c2]

/-- the sign is right: `mate N` with `N > 0` for positive mate scores, `N < 0` for negative ones (p ≥ 2) -/
theorem mate_sign (p : Int) (hr : inMateRange p) (hp : 2 ≤ p) :
    (∃ n, scoreField (Gen.MATE_VALUE - p) = .mate n ∧ 0 < n) ∧ (∃ n, scoreField (-Gen.MATE_VALUE + p) = .mate n ∧ n < 0) := by
  obtain ⟨h0, h1⟩ := hr
  obtain ⟨hb0, hbv⟩ := consts_ok
  unfold scoreField
  generalize Gen.MATE_VALUE = V at *
  generalize Gen.MATE_BOUND = B at *
  have c1 : ¬ ((V - p ≥ -V) ∧ (V - p < -B)) := by omega
  have c2 : (V - p ≤ V) ∧ (V - p > B) := by omega
  have c3 : ((-V + p ≥ -V) ∧ (-V + p < -B)) := by omega
  simp only [Bool.and_eq_true, decide_eq_true_eq, c1, c2, c3, and_self, ↓reduceIte, ScoreField.mate.injEq, exists_eq_left']
  refine ⟨?_, ?_⟩
  · rw [Int.tdiv_eq_ediv_of_nonneg (by omega)]; omega
  · have : -(-V + p + V) = -p := by omega
    rw [this, Int.neg_tdiv, Int.tdiv_eq_ediv_of_nonneg (by omega)]; omega

/-! Non-vacuity and the concrete cases the property names. -/
example : inMateRange 1 ∧ (1 : Int) % 2 = 1 := by unfold inMateRange; decide
example : scoreField (Gen.MATE_VALUE - 1) = .mate 1 := by decide          -- mate in one
example : scoreField (-Gen.MATE_VALUE + 2) = .mate (-1) := by decide       -- mated in one
example : scoreField (Gen.MATE_VALUE - 3) = .mate 2 := by decide
example : scoreField (-Gen.MATE_VALUE + 4) = .mate (-2) := by decide

/-- **T11.0** Before commit `31eef30` a position that is mated in one (score `−MATE_VALUE + 2`, e.g.
    `k7/8/1K6/8/8/8/8/7R b`, replay `replays/prefix/D5_mated_in_one.out`) was announced as `mate −2`. -/
theorem legacy_counterexample : scoreFieldLegacy (-Gen.MATE_VALUE + 2) = .mate (-2) := by decide

end Jence.Props.C11
