/-
  C18 — search is reproducible.

  In the model `search` is a function: its transcript, result and final environment are determined by the rules, the
  poll predicate, the input schedule, the position, the depth, the transposition table and the repetition table it is
  given. Nothing else exists for it to depend on; that the *binary* has no further inputs (uninitialised memory, the
  clock when no limit is set, thread timing) is what the per-run correspondence establishes (binary transcript = model
  transcript, twice, cold and warm, and after `ucinewgame` against a fresh process).
-/
import Jence.Lemmas.Top
import Jence.Lemmas.NoOverflow
namespace Jence.Props.C18
open Jence

/-- **T18.1a** equal inputs, equal outputs: scores, PVs, node counts (all in `out`) and best move -/
theorem search_deterministic (R : Rules) (cfg cfg' : Cfg) (g g' : Game) (d d' : Int) (tt tt' : TT) (rep rep' : RepTable)
    (h1 : cfg = cfg') (h2 : g = g') (h3 : d = d') (h4 : tt = tt') (h5 : rep = rep') :
    search R cfg g d tt rep = search R cfg' g' d' tt' rep' := by
  subst h1 h2 h3 h4 h5; rfl

/-- **T18.1b** a search hands back the history it was given (same length, same keys), so that repeating the same `go`
    starts from the same history (`Props/C17.search_restores`); what differs between the two runs is only the
    transposition table, which is an explicit input here -/
theorem second_search_same_history (R : Rules) (cfg : Cfg) (g : Game) (d : Int) (tt : TT) (rep : RepTable)
    (ho : (search R cfg g d tt rep).2.rep.overflow = false) :
    (search R cfg g d tt rep).2.rep.pre = rep.pre ∧ (search R cfg g d tt rep).2.rep.index = rep.index := by
  obtain ⟨_, he⟩ := search_eq R cfg g d tt rep
  rw [he] at ho ⊢
  have hf := idLoop_frame R cfg g (if d == -1 then Gen.MAX_PLY else (d % 256).toNat) 1 (-Gen.INFINITY) Gen.INFINITY 0 (Env.fresh tt rep)
  have hev := ev_frame cfg (searchLoopEnd R cfg g d tt rep).2.2
    [10, (searchLoopEnd R cfg g d tt rep).2.2.ply.toUInt64, (searchLoopEnd R cfg g d tt rep).2.2.rep.index.toUInt64,
      b2w (searchLoopEnd R cfg g d tt rep).2.2.stopping]
    (fun _ => s!"end {(searchLoopEnd R cfg g d tt rep).2.2.ply} {(searchLoopEnd R cfg g d tt rep).2.2.rep.index} {if (searchLoopEnd R cfg g d tt rep).2.2.stopping then 1 else 0}")
  have c := (hf.trans hev).2 (by simpa [Env.print] using ho)
  exact ⟨c.repPre, c.repIndex⟩

/-- **T18.2a** `ucinewgame` empties the transposition table: afterwards every probe answers "unknown", as in a fresh
    process (`Props/C08.clear_then_probe`, `new_then_probe`) -/
theorem cleared_table_like_new (t : TT) (key : UInt64) (d : Nat) (a b : Int) (q : Nat) :
    t.clear.probe key d a b q = (TT.new t.size).probe key d a b q := by
  simp [TT.probe, TT.clear, TT.new, TT.slot]

/-- **T18.2b** … and resets the history to length 0 (the following `position` then records the new game from its base) -/
theorem cleared_history_empty (r : RepTable) : r.clear.pre = [] ∧ r.clear.index = 0 := by
  simp [RepTable.clear, RepTable.pre]


/-- T18.1b with the overflow hypothesis discharged -/
theorem second_search_same_history_of_room (R : Rules) (cfg : Cfg) (g : Game) (d : Int) (tt : TT) (rep : RepTable) (hroom : HistoryRoom rep) :
    (search R cfg g d tt rep).2.rep.pre = rep.pre ∧ (search R cfg g d tt rep).2.rep.index = rep.index :=
  second_search_same_history R cfg g d tt rep (search_no_overflow R cfg g d tt rep hroom).1

end Jence.Props.C18
