/-
  C18 — search is reproducible.

  In the model `search` is a function: its transcript, result and final environment are determined by the rules, the
  poll predicate, the input schedule, the position, the depth, the transposition table and the repetition table it is
  given. Nothing else exists for it to depend on; that the *binary* has no further inputs (uninitialised memory, the
  clock when no limit is set, thread timing) is what the per-run correspondence establishes (binary transcript = model
  transcript, twice, cold and warm, and after `ucinewgame` against a fresh process).
-/
import Jence.Lemmas.Top
import Jence.Lemmas.NoOverflow
import Jence.Lemmas.RepExt
namespace Jence.Props.C18
open Jence

/-- **T18.1a** equal inputs, equal outputs: scores, PVs, node counts (all in `out`) and best move -/
theorem search_deterministic (R : Rules) (cfg cfg' : Cfg) (g g' : Game) (d d' : Int) (tt tt' : TT) (rep rep' : RepTable)
    (h1 : cfg = cfg') (h2 : g = g') (h3 : d = d') (h4 : tt = tt') (h5 : rep = rep') :
    search R cfg g d tt rep = search R cfg' g' d' tt' rep' := by
  subst h1 h2 h3 h4 h5; rfl

/-- **T18.1b** a search hands back the history it was given (same length, same keys), so that repeating the same `go`
    starts from the same history (`Props/C17.search_restores`); what differs between the two runs is only the
    transposition table, which is an explicit input here -/
theorem second_search_same_history (R : Rules) (cfg : Cfg) (g : Game) (d : Int) (tt : TT) (rep : RepTable)
    (ho : (search R cfg g d tt rep).2.rep.overflow = false) :
    (search R cfg g d tt rep).2.rep.pre = rep.pre ∧ (search R cfg g d tt rep).2.rep.index = rep.index := by
  obtain ⟨_, he⟩ := search_eq R cfg g d tt rep
  rw [he] at ho ⊢
  have hf := idLoop_frame R cfg g (if d == -1 then Gen.MAX_PLY else (d % 256).toNat) 1 (-Gen.INFINITY) Gen.INFINITY 0 (Env.fresh tt rep)
  have hev := ev_frame cfg (searchLoopEnd R cfg g d tt rep).2.2
    [10, (searchLoopEnd R cfg g d tt rep).2.2.ply.toUInt64, (searchLoopEnd R cfg g d tt rep).2.2.rep.index.toUInt64,
      b2w (searchLoopEnd R cfg g d tt rep).2.2.stopping]
    (fun _ => s!"end {(searchLoopEnd R cfg g d tt rep).2.2.ply} {(searchLoopEnd R cfg g d tt rep).2.2.rep.index} {if (searchLoopEnd R cfg g d tt rep).2.2.stopping then 1 else 0}")
  have c := (hf.trans hev).2 (by simpa [Env.print] using ho)
  exact ⟨c.repPre, c.repIndex⟩

/-- **T18.2a** `ucinewgame` empties the transposition table: afterwards every probe answers "unknown", as in a fresh
    process (`Props/C08.clear_then_probe`, `new_then_probe`) -/
theorem cleared_table_like_new (t : TT) (key : UInt64) (d : Nat) (a b : Int) (q : Nat) :
    t.clear.probe key d a b q = (TT.new t.size).probe key d a b q := by
  simp [TT.probe, TT.clear, TT.new, TT.slot]

/-- **T18.2b** … and resets the history to length 0 (the following `position` then records the new game from its base) -/
theorem cleared_history_empty (r : RepTable) : r.clear.pre = [] ∧ r.clear.index = 0 := by
  simp [RepTable.clear, RepTable.pre]


/-- T18.1b with the overflow hypothesis discharged -/
theorem second_search_same_history_of_room (R : Rules) (cfg : Cfg) (g : Game) (d : Int) (tt : TT) (rep : RepTable) (hroom : HistoryRoom rep) :
    (search R cfg g d tt rep).2.rep.pre = rep.pre ∧ (search R cfg g d tt rep).2.rep.index = rep.index :=
  second_search_same_history R cfg g d tt rep (search_no_overflow R cfg g d tt rep hroom).1

/-- **T18.1c** `search` depends on the history array only through the *recorded* history: two arrays with the same
    index, size and overflow flag and the same keys below the index - whatever stale keys lie above it, left there by
    earlier searches or earlier games - give the same result (best move, score, node count, depth, table hits), the same
    printed lines and the same table, and final environments that again differ only above the index. For every rules
    instance, depth, table content, poll schedule and input schedule, with the hook trace off (the unguarded engine; the
    trace is the only reader of a slot above the index). -/
theorem search_reads_recorded_history_only (R : Rules) (cfg : Cfg) (h0 : cfg.trace = 0) (g : Game) (depth : Int) (tt : TT)
    (rep1 rep2 : RepTable) (h : RepEq rep1 rep2) :
    (search R cfg g depth tt rep2).1 = (search R cfg g depth tt rep1).1 ∧
    (search R cfg g depth tt rep2).2.out = (search R cfg g depth tt rep1).2.out ∧
    (search R cfg g depth tt rep2).2.tt = (search R cfg g depth tt rep1).2.tt ∧
    RepEq (search R cfg g depth tt rep1).2.rep (search R cfg g depth tt rep2).2.rep := by
  obtain ⟨h1, h2⟩ := search_ext R cfg h0 g depth tt rep1 rep2 h
  exact ⟨h1, h2.out, h2.tt, h2.repEq⟩

/-- the history array a search hands back is equivalent to the one it was given (with room, `Lemmas/NoOverflow`) -/
theorem history_after_search_equivalent (R : Rules) (cfg : Cfg) (g : Game) (d : Int) (tt : TT) (rep : RepTable) (hroom : HistoryRoom rep) :
    RepEq rep (search R cfg g d tt rep).2.rep := by
  have ho := (search_no_overflow R cfg g d tt rep hroom).1
  obtain ⟨_, he⟩ := search_eq R cfg g d tt rep
  have hf := idLoop_frame R cfg g (if d == -1 then Gen.MAX_PLY else (d % 256).toNat) 1 (-Gen.INFINITY) Gen.INFINITY 0 (Env.fresh tt rep)
  have hev := ev_frame cfg (searchLoopEnd R cfg g d tt rep).2.2
    [10, (searchLoopEnd R cfg g d tt rep).2.2.ply.toUInt64, (searchLoopEnd R cfg g d tt rep).2.2.rep.index.toUInt64,
      b2w (searchLoopEnd R cfg g d tt rep).2.2.stopping]
    (fun _ => s!"end {(searchLoopEnd R cfg g d tt rep).2.2.ply} {(searchLoopEnd R cfg g d tt rep).2.2.rep.index} {if (searchLoopEnd R cfg g d tt rep).2.2.stopping then 1 else 0}")
  rw [he] at ho ⊢
  have c := (hf.trans hev).2 (by simpa [Env.print] using ho)
  refine ⟨c.repIndex.symm, c.repSize.symm, ?_, ?_⟩
  · have : (Env.fresh tt rep).rep.overflow = false := hroom.1
    simpa [Env.print] using ho.symm ▸ this
  · intro i hi
    have hpre := c.repPre
    unfold RepTable.pre at hpre
    rw [c.repIndex] at hpre
    have := congrArg (fun l => l[i]?) hpre
    simp only [List.getElem?_map, List.getElem?_range (show i < (Env.fresh tt rep).rep.index from hi), Option.map_some] at this
    exact (Option.some.inj this).symm

/-- **T18.1d** the same `go` twice: whatever the first search left above the index of the history array, the second one
    (from whatever table `tt2` the first one left) behaves as if it had been handed the original array -/
theorem second_search_as_from_original_history (R : Rules) (cfg : Cfg) (h0 : cfg.trace = 0) (g : Game) (d d2 : Int) (tt tt2 : TT)
    (rep : RepTable) (hroom : HistoryRoom rep) :
    (search R cfg g d2 tt2 (search R cfg g d tt rep).2.rep).1 = (search R cfg g d2 tt2 rep).1 ∧
    (search R cfg g d2 tt2 (search R cfg g d tt rep).2.rep).2.out = (search R cfg g d2 tt2 rep).2.out := by
  have h := search_reads_recorded_history_only R cfg h0 g d2 tt2 rep _ (history_after_search_equivalent R cfg g d tt rep hroom)
  exact ⟨h.1, h.2.1⟩

/-- **T18.2c** `ucinewgame` followed by `position args` and a search, against a fresh process given the same `position`
    and search: the old table is emptied (structurally the new table), the old history array is reset to length 0 with
    its stale keys left in place - and by T18.1c that is as good as a new array: both runs parse to the same game (or fail
    alike), and the searches return the same result and print the same lines. For every old table, every old history
    array that has not overflowed, every `position` argument string, depth and poll schedule. -/
theorem newgame_then_position_like_fresh (R : Rules) (cfg : Cfg) (h0 : cfg.trace = 0) (t : TT) (r : RepTable)
    (ho : r.overflow = false) (hsz : r.table.size = Gen.REP_CAPACITY) (args : String) (depth : Int) :
    match parsePosition args r.clear, parsePosition args RepTable.new with
    | .ok (g1, ra), .ok (g2, rb) =>
        g1 = g2 ∧ (search R cfg g1 depth t.clear ra).1 = (search R cfg g2 depth (TT.new t.size) rb).1 ∧
        (search R cfg g1 depth t.clear ra).2.out = (search R cfg g2 depth (TT.new t.size) rb).2.out
    | .none, .none => True
    | .panic, .panic => True
    | _, _ => False := by
  have h := parsePosition_ext args r.clear RepTable.new (clear_like_new r ho hsz)
  generalize parsePosition args r.clear = A at h
  generalize parsePosition args RepTable.new = B at h
  cases A with
  | ok a =>
    cases B with
    | ok b =>
      obtain ⟨g1, ra⟩ := a; obtain ⟨g2, rb⟩ := b
      obtain ⟨hg, hr⟩ := h
      subst hg
      have := search_reads_recorded_history_only R cfg h0 g1 depth (TT.new t.size) ra rb hr
      exact ⟨rfl, this.1.symm, this.2.1.symm⟩
    | none => exact h
    | panic => exact h
  | none => cases B <;> exact h
  | panic => cases B <;> exact h


end Jence.Props.C18
