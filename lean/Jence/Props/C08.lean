/-
  C08 — the transposition table only returns sound information.

  Model: `Jence.TT` (`record` / `probe` / `clear` of `src/transposition_table.rs`), slot array = finite map.
  All statements hold for every table size (the engine's is `ttSize`), every key, depth, bound type, score, ply
  and window, and every sequence of operations.
-/
import Jence.Model.TT
import Jence.Lemmas.ListExtra
namespace Jence.Props.C08
open Jence

/-- a table operation (a probe does not change the table) -/
inductive Op
  | record (key : UInt64) (score : Int) (depth : Nat) (flag : Flag) (ply : Nat)
  | probe (key : UInt64) (depth : Nat) (alpha beta : Int) (ply : Nat)
  | clear

def step (t : TT) : Op → TT
  | .record k s d f p => t.record k s d f p
  | .probe .. => t
  | .clear => t.clear

def run (t : TT) (ops : List Op) : TT := ops.foldl step t

/-- score as stored: mate scores are made relative to the node (`record`) -/
def adjStore (s : Int) (p : Nat) : Int :=
  if s < -Gen.MATE_BOUND then s - p else if s > Gen.MATE_BOUND then s + p else s
/-- score as handed back: mate scores are made relative to the probing node's distance from the root (`probe`) -/
def adjProbe (e : Int) (q : Nat) : Int :=
  if e < -Gen.MATE_BOUND then e + q else if e > Gen.MATE_BOUND then e - q else e

/-- what a probe may answer given the entry found in its slot -/
def answer (e : Option Entry) (key : UInt64) (depth : Nat) (alpha beta : Int) (ply : Nat) : Int :=
  match e with
  | none => Gen.UNKNOWN_SCORE
  | some e =>
    if key == e.key && e.depth >= depth then
      match e.flag with
      | .exact => adjProbe e.score ply
      | .alpha => if adjProbe e.score ply <= alpha then alpha else Gen.UNKNOWN_SCORE
      | .beta => if adjProbe e.score ply >= beta then beta else Gen.UNKNOWN_SCORE
    else Gen.UNKNOWN_SCORE

theorem probe_eq_answer (t : TT) (key : UInt64) (d : Nat) (a b : Int) (q : Nat) :
    t.probe key d a b q = answer t.slots[t.slot key]? key d a b q := by
  unfold TT.probe answer adjProbe
  cases t.slots[t.slot key]? <;> rfl

/-! ### The abstract cache: slot ↦ last entry written since the last clear -/

def specStep (size : Nat) (f : Nat → Option Entry) : Op → Nat → Option Entry
  | .record k s d fl p => fun i => if k.toNat % size = i then some ⟨k, d, fl, adjStore s p⟩ else f i
  | .probe .. => f
  | .clear => fun _ => none

def specRun (size : Nat) (ops : List Op) : Nat → Option Entry :=
  ops.foldl (specStep size) (fun _ => none)

theorem step_size (t : TT) (op : Op) : (step t op).size = t.size := by
  cases op <;> simp [step, TT.record, TT.clear]

theorem run_size (t : TT) (ops : List Op) : (run t ops).size = t.size := by
  induction ops generalizing t with
  | nil => rfl
  | cons op ops ih => simp only [run, List.foldl_cons] at ih ⊢; rw [ih, step_size]

/-- the slot map of the model is the abstract cache (refinement, by induction over the operations) -/
theorem slots_eq_spec (size : Nat) (ops : List Op) (i : Nat) :
    (run (TT.new size) ops).slots[i]? = specRun size ops i := by
  induction ops using List.snoc_induction with
  | nil => simp [run, specRun, TT.new]
  | snoc ops op ih =>
    have hs : (run (TT.new size) ops).size = size := by rw [run_size]; rfl
    simp only [run, specRun, List.foldl_append, List.foldl_cons, List.foldl_nil] at ih ⊢
    cases op with
    | record k s d fl p =>
      simp only [step, specStep, TT.record, TT.slot]
      rw [Std.HashMap.getElem?_insert]
      have hs' : (List.foldl step (TT.new size) ops).size = size := hs
      rw [hs']
      by_cases h : k.toNat % size = i
      · simp [h, adjStore]
      · simp [h, ih]
    | probe => simpa [step, specStep] using ih
    | clear => simp [step, specStep, TT.clear]

/-! ### T8.1 — probe soundness over all operation sequences -/

/-- no operation of `post` clears the table or writes the slot `i` -/
def Untouched (size : Nat) (i : Nat) (post : List Op) : Prop :=
  ∀ op ∈ post, match op with
    | .record k .. => k.toNat % size ≠ i
    | .probe .. => True
    | .clear => False

/-- whatever the abstract cache holds in a slot was put there by a `record` that nothing later disturbed -/
theorem spec_some (size : Nat) (ops : List Op) (i : Nat) (e : Entry) (h : specRun size ops i = some e) :
    ∃ pre post s p, ops = pre ++ [Op.record e.key s e.depth e.flag p] ++ post ∧
      e.key.toNat % size = i ∧ e.score = adjStore s p ∧ Untouched size i post := by
  induction ops using List.snoc_induction with
  | nil => simp [specRun] at h
  | snoc ops op ih =>
    simp only [specRun, List.foldl_append, List.foldl_cons, List.foldl_nil] at h ih
    cases op with
    | record k s d fl p =>
      simp only [specStep] at h
      by_cases hk : k.toNat % size = i
      · simp only [hk, ↓reduceIte, Option.some.injEq] at h
        subst h
        exact ⟨ops, [], s, p, by simp, hk, rfl, by intro op hop; simp at hop⟩
      · simp only [hk, ↓reduceIte] at h
        obtain ⟨pre, post, s', p', rfl, h1, h2, h3⟩ := ih h
        refine ⟨pre, post ++ [Op.record k s d fl p], s', p', by simp, h1, h2, ?_⟩
        intro op hop
        rcases List.mem_append.mp hop with hop | hop
        · exact h3 op hop
        · simp only [List.mem_singleton] at hop; subst hop; exact hk
    | probe k d a b q =>
      simp only [specStep] at h
      obtain ⟨pre, post, s', p', rfl, h1, h2, h3⟩ := ih h
      refine ⟨pre, post ++ [Op.probe k d a b q], s', p', by simp, h1, h2, ?_⟩
      intro op hop
      rcases List.mem_append.mp hop with hop | hop
      · exact h3 op hop
      · simp only [List.mem_singleton] at hop; subst hop; trivial
    | clear => simp [specStep] at h

/-- **T8.1** A probe that answers anything (≠ `UNKNOWN_SCORE`) after *any* sequence of operations on a fresh table does
    so because of a `record` for exactly the probed key, with at least the requested depth, after which the table was
    neither cleared nor that slot overwritten; the answer is the stored value re-based to the probing ply (exact), or
    `alpha` only if that value does not exceed `alpha`, or `beta` only if it reaches `beta`. -/
theorem probe_sound (size : Nat) (ops : List Op) (key : UInt64) (d : Nat) (alpha beta : Int) (ply : Nat) (v : Int)
    (hv : (run (TT.new size) ops).probe key d alpha beta ply = v) (hne : v ≠ Gen.UNKNOWN_SCORE) :
    ∃ pre post s d' fl p, ops = pre ++ [Op.record key s d' fl p] ++ post ∧
      Untouched size (key.toNat % size) post ∧ d ≤ d' ∧
      (match fl with
       | .exact => v = adjProbe (adjStore s p) ply
       | .alpha => v = alpha ∧ adjProbe (adjStore s p) ply ≤ alpha
       | .beta => v = beta ∧ adjProbe (adjStore s p) ply ≥ beta) := by
  rw [probe_eq_answer] at hv
  have hsz : (run (TT.new size) ops).size = size := by rw [run_size]; rfl
  have hslot : (run (TT.new size) ops).slot key = key.toNat % size := by simp [TT.slot, hsz]
  rw [hslot, slots_eq_spec] at hv
  unfold answer at hv
  cases he : specRun size ops (key.toNat % size) with
  | none => rw [he] at hv; exact absurd hv.symm hne
  | some e =>
    rw [he] at hv
    simp only at hv
    by_cases hc : (key == e.key && e.depth >= d) = true
    · simp only [hc, ↓reduceIte] at hv
      simp only [Bool.and_eq_true, beq_iff_eq, ge_iff_le, decide_eq_true_eq] at hc
      obtain ⟨hk, hd⟩ := hc
      obtain ⟨pre, post, s, p, hops, _, hsc, hun⟩ := spec_some size ops _ e he
      refine ⟨pre, post, s, e.depth, e.flag, p, by rw [hk]; exact hops, hun, hd, ?_⟩
      rw [← hsc]
      cases hf : e.flag <;> simp only [hf] at hv ⊢
      · by_cases h' : adjProbe e.score ply ≤ alpha
        · simp only [h', ↓reduceIte] at hv; exact ⟨hv.symm, h'⟩
        · simp only [h', ↓reduceIte] at hv; exact absurd hv.symm hne
      · by_cases h' : adjProbe e.score ply ≥ beta
        · simp only [h', ↓reduceIte] at hv; exact ⟨hv.symm, h'⟩
        · simp only [h', ↓reduceIte] at hv; exact absurd hv.symm hne
      · exact hv.symm
    · simp only [hc, Bool.false_eq_true, ↓reduceIte] at hv
      exact absurd hv.symm hne

/-! ### T8.2 — the re-basing law for mate scores -/

/-- A mate score stored at ply `p` and probed at ply `q` comes back shifted by `q - p` (for the mated side: towards
    zero as the root gets farther), any other score unchanged: the threshold tests at `record` (on the score) and at
    `probe` (on the stored value) classify it the same way, because adding the ply moves a mate score away from the
    threshold. -/
theorem rebase_law (s : Int) (p q : Nat) :
    adjProbe (adjStore s p) q =
      if s < -Gen.MATE_BOUND then s - p + q else if s > Gen.MATE_BOUND then s + p - q else s := by
  have hb : (0 : Int) ≤ Gen.MATE_BOUND := by decide
  unfold adjProbe adjStore
  split <;> split <;> (try split) <;> (try split) <;> omega

/-- every mate score the search can produce (a mate at most `MAX_PLY + 2` plies from the node) is beyond the threshold,
    so none is ever stored un-re-based (checked on the constants generated from the source) -/
theorem mate_scores_beyond_bound :
    Gen.MATE_VALUE - (Gen.MAX_PLY + 2 : Nat) > Gen.MATE_BOUND ∧ Gen.MATE_VALUE < Gen.INFINITY ∧
    -Gen.INFINITY > Gen.UNKNOWN_SCORE := by decide

/-! ### T8.3 / T8.4 — store-then-probe and clear-then-probe -/

/-- **T8.3** A result just stored is retrievable: for any requested depth `d ≤ d'` the probe returns the stored value
    re-based to the probing ply (exact), or the bound when the window admits it. -/
theorem store_then_probe (t : TT) (key : UInt64) (s : Int) (d' : Nat) (fl : Flag) (p : Nat)
    (d : Nat) (alpha beta : Int) (q : Nat) (hd : d ≤ d') :
    (t.record key s d' fl p).probe key d alpha beta q =
      match fl with
      | .exact => adjProbe (adjStore s p) q
      | .alpha => if adjProbe (adjStore s p) q ≤ alpha then alpha else Gen.UNKNOWN_SCORE
      | .beta => if adjProbe (adjStore s p) q ≥ beta then beta else Gen.UNKNOWN_SCORE := by
  rw [probe_eq_answer]
  have : (t.record key s d' fl p).slots[(t.record key s d' fl p).slot key]? = some ⟨key, d', fl, adjStore s p⟩ := by
    simp [TT.record, TT.slot, adjStore]
  rw [this]
  unfold answer
  have hd' : decide (d' ≥ d) = true := by simpa using hd
  simp only [beq_self_eq_true, hd', Bool.and_self, ↓reduceIte]

/-- **T8.4** After a clear nothing is retrievable. -/
theorem clear_then_probe (t : TT) (key : UInt64) (d : Nat) (alpha beta : Int) (q : Nat) :
    t.clear.probe key d alpha beta q = Gen.UNKNOWN_SCORE := by
  rw [probe_eq_answer]; simp [TT.clear, answer]

/-- a fresh table answers nothing -/
theorem new_then_probe (size : Nat) (key : UInt64) (d : Nat) (alpha beta : Int) (q : Nat) :
    (TT.new size).probe key d alpha beta q = Gen.UNKNOWN_SCORE := by
  rw [probe_eq_answer]; simp [TT.new, answer]

/-! Non-vacuity: a concrete sequence with a slot collision, a clear and a mate score; the hypotheses of T8.1 are met. -/
example : adjProbe (adjStore 48990 3) 7 = 48986 := by decide
example : adjProbe (adjStore (-48990) 3) 7 = -48986 := by decide
example : Untouched 8 1 [Op.record 10 5 5 .exact 0, Op.probe 9 0 0 0 0] := by
  intro op hop; simp at hop; rcases hop with rfl | rfl <;> simp

end Jence.Props.C08
