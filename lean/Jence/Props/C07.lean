/-
  C07 — repetition draws are recognised exactly with respect to the game history.

  Model: the head of `negamax` after commit `f05efd1` (`src/search.rs`, `src/repetition_table.rs`): the node's own key is
  looked up among the recorded history keys before the transposition table is consulted. Positions are identified with
  their 64-bit keys, as the engine does (trusted base).
-/
import Jence.Lemmas.Top
namespace Jence.Props.C07
open Jence

theorem onNode_rep (cfg : Cfg) (e : Env) (k : Nat) (g : Game) (d : Nat) (a b : Int) : (e.onNode cfg k g d a b).rep = e.rep := by
  unfold Env.onNode; split; · rfl
  exact ev_rep ..

/-- `is_now_in_threefold_repetition(key)`: the key is one of the recorded ones -/
theorem isRepetition_iff (r : RepTable) (k : UInt64) : r.isRepetition k = true ↔ k ∈ r.pre := by
  simp [RepTable.isRepetition]

/-- **T7.1** (complete). Every non-root call of `negamax` on a position whose key is in the recorded history scores it
    as a draw — whatever the transposition table holds (the table is not even consulted), at whatever depth and window,
    also when the node is re-searched (the theorem is per call). -/
theorem repetition_complete (R : Rules) (cfg : Cfg) (fuel : Nat) (g : Game) (depth : Nat) (alpha beta : Int) (e : Env)
    (hply : 0 < e.ply) (hrep : g.key ∈ e.rep.pre) :
    (negamax R cfg (fuel + 1) g depth alpha beta e).1 = 0 ∧
    (negamax R cfg (fuel + 1) g depth alpha beta e).2.tt = e.tt ∧
    (negamax R cfg (fuel + 1) g depth alpha beta e).2.ttHits = e.ttHits := by
  simp only [negamax]
  obtain ⟨dg, n, lg, h1⟩ := onNode_eq cfg e 1 g depth alpha beta
  rw [h1]
  have hc : (decide (({ e with digest := dg, events := n, log := lg } : Env).ply > 0) &&
      ({ e with digest := dg, events := n, log := lg } : Env).rep.isRepetition g.key) = true := by
    simp [hply, (isRepetition_iff e.rep g.key).mpr hrep]
  rw [if_pos hc]
  unfold repReturn
  simp only
  obtain ⟨dg2, n2, lg2, h2⟩ := ev_eq cfg ({ e with digest := dg, events := n, log := lg } : Env)
    [3, e.ply.toUInt64, g.key, e.rep.table.getD e.rep.index 0]
    (fun _ => s!"rep {e.ply} {hex16 g.key} {hex16 (e.rep.table.getD e.rep.index 0)}")
  rw [h2]
  simp

/-- **T7.2** (sound). A call is answered through the repetition return only if it is not the root and the key of its
    own position is among the recorded history keys; otherwise the node goes on to the table probe and the search. -/
theorem repetition_sound (R : Rules) (cfg : Cfg) (fuel : Nat) (g : Game) (depth : Nat) (alpha beta : Int) (e : Env)
    (h : ¬ (0 < e.ply ∧ g.key ∈ e.rep.pre)) :
    negamax R cfg (fuel + 1) g depth alpha beta e =
      (let e1 := e.onNode cfg 1 g depth alpha beta
       if probeNode cfg g depth alpha beta e1 != Gen.UNKNOWN_SCORE then ttReturn cfg g (probeNode cfg g depth alpha beta e1) e1
       else afterProbe R cfg (negamax R cfg fuel) g depth alpha beta e1) := by
  simp only [negamax]
  have h1 : (e.onNode cfg 1 g depth alpha beta).ply = e.ply := onNode_ply ..
  have h2 : (e.onNode cfg 1 g depth alpha beta).rep = e.rep := onNode_rep ..
  generalize e.onNode cfg 1 g depth alpha beta = e1 at h1 h2
  have hc : ¬ ((decide (e1.ply > 0) && e1.rep.isRepetition g.key) = true) := by
    rw [h1, h2]
    simp only [Bool.and_eq_true, decide_eq_true_eq, isRepetition_iff]
    exact h
  rw [if_neg hc]

/-- the history a child node is tested against is the history of its parent: the child's key is pushed and popped at
    once (the slot above the history keeps it, but nothing reads that slot any more) -/
theorem child_history (r : RepTable) (k : UInt64) (h : (r.insert k).moveBack.overflow = false) :
    (r.insert k).moveBack.pre = r.pre ∧ (r.insert k).moveBack.index = r.index :=
  let ⟨a, b, _⟩ := (insert_moveBack r k).2 h
  ⟨b, a⟩

/-- … and every call hands the history back as it got it (master invariant), so all nodes of the main search - including
    re-searches and nodes after a quiescence search - are tested against exactly the game history recorded by `position`
    (`Props/C05.position_history`: every position from the base position through the root). -/
theorem history_restored (R : Rules) (cfg : Cfg) (fuel : Nat) (g : Game) (depth : Nat) (alpha beta : Int) (e : Env)
    (ho : (negamax R cfg fuel g depth alpha beta e).2.rep.overflow = false) :
    (negamax R cfg fuel g depth alpha beta e).2.rep.pre = e.rep.pre :=
  ((negamax_frame R cfg fuel g depth alpha beta e).2 ho).repPre

end Jence.Props.C07
