/-
  C12 — every info line is well-formed, and its principal variation is a legal line.

  Model: `infoLine` / `idLoop` (`search` in `src/search.rs`).
-/
import Jence.Lemmas.Top
import Jence.Lemmas.NoOverflow
import Jence.Lemmas.PvLine
import Jence.Lemmas.LegalMoves
import Jence.Props.C01
namespace Jence.Props.C12
open Jence

/-- **T12.1a** An info line is `info score (cp X | mate N) depth D nodes K time T pv m1 m2 … ` with the first
    `pv_lengths[0]` moves of PV row 0 (time is printed as 0 in the model; the correspondence masks the field). -/
theorem info_shape (score : Int) (depth : Nat) (e : Env) :
    infoLine score depth e =
      "info score " ++ (scoreField score).render ++ " depth " ++ toString depth ++ " nodes " ++ toString e.nodes ++
        " time 0 pv " ++ String.join ((List.range (e.pvLen.getD 0 0)).map fun i => (e.pvAt 0 i).toUci ++ " ") := by
  simp only [infoLine, mateOrCp, pvLine]
  rfl

/-- the score field is `cp X` or `mate N` -/
theorem score_field_shape (s : Int) :
    (∃ v : Int, (scoreField s).render = s!"cp {v}") ∨ (∃ n : Int, (scoreField s).render = s!"mate {n}") := by
  cases h : scoreField s with
  | cp v => left; exact ⟨v, rfl⟩
  | mate n => right; exact ⟨n, rfl⟩

/-- **T12.1b** node counts never decrease: every part of the search returns with at least the node count it started with
    (master invariant), so successive info lines of one search carry non-decreasing counts -/
theorem nodes_monotone (R : Rules) (cfg : Cfg) (fuel : Nat) (g : Game) (depth : Nat) (alpha beta : Int) (e : Env)
    (ho : (negamax R cfg fuel g depth alpha beta e).2.rep.overflow = false) :
    e.nodes ≤ (negamax R cfg fuel g depth alpha beta e).2.nodes :=
  ((negamax_frame R cfg fuel g depth alpha beta e).2 ho).nodesMono

/-- **T12.1c** the depth printed by an iteration is the loop counter, which grows by one per iteration: the line printed
    by iteration `cur` carries `depth cur`, and the next iteration runs with `cur + 1` -/
theorem idLoop_step (R : Rules) (cfg : Cfg) (g : Game) (count cur : Nat) (alpha beta score : Int) (e : Env) :
    let r := negamax R cfg negaFuel g cur alpha beta { e with followPv := true }
    idLoop R cfg g (count + 1) cur alpha beta score e =
      if r.2.stopping then (r.1, cur, r.2)
      else if r.1 ≤ alpha || r.1 ≥ beta then idLoop R cfg g count (cur + 1) (-Gen.INFINITY) Gen.INFINITY r.1 r.2
      else idLoop R cfg g count (cur + 1) (r.1 - 50) (r.1 + 50) r.1 (r.2.print (infoLine r.1 cur r.2)) := by
  simp only [idLoop]

/-- the moves an info line prints after `pv` are row 0 of the PV table -/
theorem info_pv_is_row0 (e : Env) : (List.range (e.pvLen.getD 0 0)).map (fun i => e.pvAt 0 i) = pvRow e 0 := by
  unfold pvRow
  simp

/-- every info line `idLoop` prints carries a legal line: the predicate follows the loop (T12.1c) and asks for
    `LegalLine` exactly where an info line is printed -/
def AllPrintedLegal (R : Rules) (cfg : Cfg) (g : Game) : Nat → Nat → Int → Int → Env → Prop
  | 0, _, _, _, _ => True
  | count + 1, cur, alpha, beta, e =>
    let r := negamax R cfg negaFuel g cur alpha beta { e with followPv := true }
    if r.2.stopping then True
    else if r.1 ≤ alpha ∨ r.1 ≥ beta then AllPrintedLegal R cfg g count (cur + 1) (-Gen.INFINITY) Gen.INFINITY r.2
    else LegalLine R g (pvRow r.2 0) ∧
      AllPrintedLegal R cfg g count (cur + 1) (r.1 - 50) (r.1 + 50) (r.2.print (infoLine r.1 cur r.2))

/-- **T12.2** Every info line of a search prints a legal line: each move of its PV is generated in, and accepted by
    `make_search_move` from, the position its predecessors lead to - for every rules instance, depth, window sequence,
    table content (cold or warm), history, poll schedule. (A line is printed only for an iteration that finished inside
    its aspiration window; inside the window the triangular PV table holds, row by row, the line of the last move that
    raised alpha, because every node on it was searched with an open window, reset its row on entry, and copied its
    child's row only when the child's value lay strictly inside the child's window.) -/
theorem info_lines_carry_legal_pv (R : Rules) (cfg : Cfg) (g : Game) :
    ∀ (count cur : Nat) (alpha beta score : Int) (e : Env), PvWf e → e.ply = 0 →
      (idLoop R cfg g count cur alpha beta score e).2.2.rep.overflow = false →
      AllPrintedLegal R cfg g count cur alpha beta e := by
  intro count
  induction count with
  | zero => intro cur alpha beta score e _ _ _; trivial
  | succ count ih =>
    intro cur alpha beta score e wf hp ho
    simp only [idLoop] at ho
    simp only [AllPrintedLegal]
    have wf0 : PvWf ({ e with followPv := true } : Env) := PvWf.of_same (e := e) rfl rfl wf
    have hfr := negamax_frame R cfg negaFuel g cur alpha beta { e with followPv := true }
    have hpv := negamax_pv R cfg negaFuel g cur alpha beta { e with followPv := true } wf0 (by show e.ply ≤ 63; omega)
    generalize negamax R cfg negaFuel g cur alpha beta { e with followPv := true } = r at hfr hpv ho ⊢
    obtain ⟨sc, e2⟩ := r
    simp only at ho hpv ⊢
    by_cases hst : e2.stopping = true
    · rw [if_pos hst]; trivial
    · have hrun : e2.stopping = false := by simpa using hst
      rw [if_neg hst] at ho ⊢
      by_cases hout : sc ≤ alpha ∨ sc ≥ beta
      · have hc : (decide (sc ≤ alpha) || decide (sc ≥ beta)) = true := by simpa using hout
        rw [if_pos hc] at ho
        rw [if_pos hout]
        have ho2 : e2.rep.overflow = false := (idLoop_frame R cfg g count (cur + 1) (-Gen.INFINITY) Gen.INFINITY sc e2).no_ov ho
        obtain ⟨_, w2, _⟩ := hpv ho2
        exact ih (cur + 1) _ _ sc e2 w2 (by rw [(hfr.2 ho2).ply]; exact hp) ho
      · have hc : ¬ ((decide (sc ≤ alpha) || decide (sc ≥ beta)) = true) := by simpa using hout
        rw [if_neg hc] at ho
        rw [if_neg hout]
        have hpf := print_frame e2 (infoLine sc cur e2) hrun
        have ho3 : (e2.print (infoLine sc cur e2)).rep.overflow = false :=
          (idLoop_frame R cfg g count (cur + 1) (sc - 50) (sc + 50) sc _).no_ov ho
        have ho2 : e2.rep.overflow = false := hpf.no_ov ho3
        obtain ⟨_, w2, j2⟩ := hpv ho2
        have hrow := j2 hrun (by omega) (by omega)
        have hrow0 : LegalLine R g (pvRow e2 0) := by
          have h := hrow.2
          have hp0 : ({ e with followPv := true } : Env).ply = 0 := hp
          rw [hp0] at h; exact h
        refine ⟨hrow0, ih (cur + 1) _ _ sc _ (PvWf.of_same (e := e2) rfl rfl w2) ?_ ho⟩
        show e2.ply = 0
        rw [(hfr.2 ho2).ply]; exact hp

/-- the state a search starts from has a well-formed (empty) PV table -/
theorem fresh_pvwf (tt : TT) (rep : RepTable) : PvWf (Env.fresh tt rep) := by
  refine ⟨by simp [Env.fresh], by simp [Env.fresh], fun q => ?_⟩
  simp only [Env.fresh]
  by_cases hq : q < 64
  · simp [Array.getD_eq_getD_getElem?, hq]
  · simp [Array.getD_eq_getD_getElem?, hq]

/-- **T12.2 for a whole search**: all info lines of `search` carry legal lines -/
theorem search_info_lines_legal (R : Rules) (cfg : Cfg) (g : Game) (depth : Int) (tt : TT) (rep : RepTable)
    (ho : (searchLoopEnd R cfg g depth tt rep).2.2.rep.overflow = false) :
    AllPrintedLegal R cfg g (if depth == -1 then Gen.MAX_PLY else (depth % 256).toNat) 1 (-Gen.INFINITY) Gen.INFINITY (Env.fresh tt rep) :=
  info_lines_carry_legal_pv R cfg g _ 1 _ _ 0 _ (fresh_pvwf tt rep) rfl ho

/-- a line of rules moves, each legal in the position its predecessors lead to (by the rules specification) -/
def SpecLine : Spec.Position → List Spec.SMove → Prop
  | _, [] => True
  | p, sm :: rest => sm ∈ Spec.legalMoves p ∧ SpecLine (Spec.apply p sm) rest

/-- **T12.2 against the rules**: a legal line of the engine (what the info lines carry, by T12.2) denotes a line of
    moves each legal by the rules specification, played from the rules position the root denotes - for a consistent root
    in which the side not to move is not in check (clocks away from their limits along the line) -/
theorem legal_line_is_rules_line : ∀ (ms : List Move) (g : Game) (b : Board), Wf g b → NoKingCapture g →
    g.halfMoves + ms.length < 255 → g.fullMoves + ms.length < 65535 → LegalLine chessRules g ms →
    SpecLine (Spec.abs g) (ms.map smove) := by
  intro ms
  induction ms with
  | nil => intro g b _ _ _ _ _; trivial
  | cons m ms ih =>
    intro g b wf nk hh hf hl
    obtain ⟨hgen, g', hmk, hrest⟩ := hl
    have hgen' : m ∈ generateMoves g true := hgen
    have hmk' : makeCore g m = some g' := hmk
    simp only [List.length_cons] at hh hf
    have fits := gen_fits wf nk true m hgen'
    have flags := gen_flags wf true m hgen'
    have hleg : m ∈ legalValues g := by
      rw [C01.legalValues_eq_made g wf.ok.epLe]
      exact List.mem_filter.2 ⟨hgen', by rw [hmk']; rfl⟩
    have hsm : smove m ∈ Spec.legalMoves (Spec.abs g) := (legal_refines wf nk _).2 ⟨m, hleg, rfl⟩
    have wf' := makeCore_wf g g' m b wf fits hmk'
    have nk' := makeCore_nk g g' m b wf fits hmk'
    obtain ⟨ch, cf⟩ := makeCore_clocks g g' m hmk'
    have hh' : g'.halfMoves + ms.length < 255 := by
      rw [ch]; split
      · omega
      · have : (g.halfMoves + 1) % 256 = g.halfMoves + 1 := Nat.mod_eq_of_lt (by omega)
        omega
    have hf' : g'.fullMoves + ms.length < 65535 := by
      rw [cf]; split
      · omega
      · have : (g.fullMoves + 1) % 65536 = g.fullMoves + 1 := Nat.mod_eq_of_lt (by omega)
        omega
    refine ⟨hsm, ?_⟩
    rw [← apply_refines wf fits flags hmk' (by omega) (by omega)]
    exact ih g' _ wf' nk' hh' hf' hrest


/-- **T12.2 with the overflow hypothesis discharged**: with 65 free history slots all info lines carry legal lines -/
theorem search_info_lines_legal_of_room (R : Rules) (cfg : Cfg) (g : Game) (depth : Int) (tt : TT) (rep : RepTable) (hroom : HistoryRoom rep) :
    AllPrintedLegal R cfg g (if depth == -1 then Gen.MAX_PLY else (depth % 256).toNat) 1 (-Gen.INFINITY) Gen.INFINITY (Env.fresh tt rep) :=
  search_info_lines_legal R cfg g depth tt rep (search_no_overflow R cfg g depth tt rep hroom).2

end Jence.Props.C12
