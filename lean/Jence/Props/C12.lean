/-
  C12 — every info line is well-formed (the shape part).

  Model: `infoLine` / `idLoop` (`search` in `src/search.rs`).
-/
import Jence.Lemmas.Top
namespace Jence.Props.C12
open Jence

/-- **T12.1a** An info line is `info score (cp X | mate N) depth D nodes K time T pv m1 m2 … ` with the first
    `pv_lengths[0]` moves of PV row 0 (time is printed as 0 in the model; the correspondence masks the field). -/
theorem info_shape (score : Int) (depth : Nat) (e : Env) :
    infoLine score depth e =
      "info score " ++ (scoreField score).render ++ " depth " ++ toString depth ++ " nodes " ++ toString e.nodes ++
        " time 0 pv " ++ String.join ((List.range (e.pvLen.getD 0 0)).map fun i => (e.pvAt 0 i).toUci ++ " ") := by
  simp only [infoLine, mateOrCp, pvLine]
  rfl

/-- the score field is `cp X` or `mate N` -/
theorem score_field_shape (s : Int) :
    (∃ v : Int, (scoreField s).render = s!"cp {v}") ∨ (∃ n : Int, (scoreField s).render = s!"mate {n}") := by
  cases h : scoreField s with
  | cp v => left; exact ⟨v, rfl⟩
  | mate n => right; exact ⟨n, rfl⟩

/-- **T12.1b** node counts never decrease: every part of the search returns with at least the node count it started with
    (master invariant), so successive info lines of one search carry non-decreasing counts -/
theorem nodes_monotone (R : Rules) (cfg : Cfg) (fuel : Nat) (g : Game) (depth : Nat) (alpha beta : Int) (e : Env)
    (ho : (negamax R cfg fuel g depth alpha beta e).2.rep.overflow = false) :
    e.nodes ≤ (negamax R cfg fuel g depth alpha beta e).2.nodes :=
  ((negamax_frame R cfg fuel g depth alpha beta e).2 ho).nodesMono

/-- **T12.1c** the depth printed by an iteration is the loop counter, which grows by one per iteration: the line printed
    by iteration `cur` carries `depth cur`, and the next iteration runs with `cur + 1` -/
theorem idLoop_step (R : Rules) (cfg : Cfg) (g : Game) (count cur : Nat) (alpha beta score : Int) (e : Env) :
    let r := negamax R cfg negaFuel g cur alpha beta { e with followPv := true }
    idLoop R cfg g (count + 1) cur alpha beta score e =
      if r.2.stopping then (r.1, cur, r.2)
      else if r.1 ≤ alpha || r.1 ≥ beta then idLoop R cfg g count (cur + 1) (-Gen.INFINITY) Gen.INFINITY r.1 r.2
      else idLoop R cfg g count (cur + 1) (r.1 - 50) (r.1 + 50) r.1 (r.2.print (infoLine r.1 cur r.2)) := by
  simp only [idLoop]

end Jence.Props.C12
