/-
  C02 — making a legal move yields the rules-defined successor.

  Model: `Jence.Move` (`src/cmove.rs`): the constructor packs eight fields into one word and the accessors unpack them;
  `Jence.makeCore` (`make_search_move` in `src/make_move.rs`), `Jence.generateMoves` (`src/move_generator.rs`).
  The consistent position `Wf g b` (Lemmas/Wf.lean): the twelve piece sets hold the board `b : square → piece` (so they
  are pairwise disjoint), the three occupancy sets are the white / black / all pieces of `b`, pawns stand on rows 2-7,
  the en-passant square and the castling rights agree with `b`, each side has exactly one king.
  `applyB b w m` is the rules' board after the move: origin emptied, en-passant victim removed, the moved piece (or the
  piece it promotes to) on the target square, the rook hopped on castling.
-/
import Jence.Model.Types
import Jence.Lemmas.NoKing
import Jence.Lemmas.ApplyRefine
namespace Jence.Props.C02
open Jence

private def b2n (b : Bool) : Nat := if b then 1 else 0

private theorem flag_eq (K : Nat) (b : Bool) : (if b then K else 0) = K * b2n b := by
  cases b <;> simp [b2n]

private theorem b2n_le (b : Bool) : b2n b ≤ 1 := by cases b <;> simp [b2n]

private theorem beq_one_iff (n : Nat) (b : Bool) (h : n = b2n b) : (n == 1) = b := by
  cases b <;> simp [b2n] at h <;> simp [h]

/-- **T2.4** Every accessor returns what the constructor was given, for all squares `< 64`, piece and promotion
    indices `< 16` and all flag combinations: the 24-bit packing loses nothing. -/
theorem move_pack_roundtrip (f t p pr : Nat) (cap dbl ep cas : Bool)
    (hf : f < 64) (ht : t < 64) (hp : p < 16) (hpr : pr < 16) :
    let m := Move.mk' f t p pr cap dbl ep cas
    m.fromSq = f ∧ m.toSq = t ∧ m.piece = p ∧ m.promotion = pr ∧
    m.isCapture = cap ∧ m.isDoublePush = dbl ∧ m.isEnpassant = ep ∧ m.isCastling = cas := by
  simp only [Move.mk', Move.fromSq, Move.toSq, Move.piece, Move.promotion, Move.isCapture, Move.isDoublePush,
    Move.isEnpassant, Move.isCastling, flag_eq]
  have h1 := b2n_le cap; have h2 := b2n_le dbl; have h3 := b2n_le ep; have h4 := b2n_le cas
  refine ⟨by omega, by omega, by omega, by omega, ?_, ?_, ?_, ?_⟩
  · exact beq_one_iff _ _ (by omega)
  · exact beq_one_iff _ _ (by omega)
  · exact beq_one_iff _ _ (by omega)
  · exact beq_one_iff _ _ (by omega)

/-- the packing is injective: two moves with the same word have the same fields (so `==` on moves is field equality) -/
theorem move_pack_injective (f t p pr f' t' p' pr' : Nat) (c d e k c' d' e' k' : Bool)
    (hf : f < 64) (ht : t < 64) (hp : p < 16) (hpr : pr < 16) (hf' : f' < 64) (ht' : t' < 64) (hp' : p' < 16) (hpr' : pr' < 16)
    (h : Move.mk' f t p pr c d e k = Move.mk' f' t' p' pr' c' d' e' k') :
    f = f' ∧ t = t' ∧ p = p' ∧ pr = pr' ∧ c = c' ∧ d = d' ∧ e = e' ∧ k = k' := by
  have h1 := move_pack_roundtrip f t p pr c d e k hf ht hp hpr
  have h2 := move_pack_roundtrip f' t' p' pr' c' d' e' k' hf' ht' hp' hpr'
  simp only at h1 h2
  rw [h] at h1
  obtain ⟨a1, a2, a3, a4, a5, a6, a7, a8⟩ := h1
  obtain ⟨b1, b2, b3, b4, b5, b6, b7, b8⟩ := h2
  exact ⟨a1.symm.trans b1, a2.symm.trans b2, a3.symm.trans b3, a4.symm.trans b4,
         a5.symm.trans b5, a6.symm.trans b6, a7.symm.trans b7, a8.symm.trans b8⟩

/-- no generated move is the null move: a packed move with `from ≠ to` or a non-zero piece is not `NULL_MOVE` -/
theorem mk_ne_null (f t p pr : Nat) (c d e k : Bool) (h : f ≠ 0 ∨ t ≠ 0 ∨ p ≠ 0 ∨ pr ≠ 0) :
    Move.mk' f t p pr c d e k ≠ Move.null := by
  intro heq
  have : (Move.mk' f t p pr c d e k).data = 0 := by rw [heq]; rfl
  simp only [Move.mk'] at this
  omega

example : (Move.mk' 52 36 0 12 false true false false).toUci = "e2e4" := by decide

/-- **T2.1** Making a generated move in a consistent position in which no capture aims at the enemy king (the side
    not to move is not in check): the new position is consistent again - piece sets disjoint, occupancy sets equal to
    the unions, one king each - and it is exactly the position the rules prescribe: the board is `applyB`, the side to
    move flips, the en-passant square is the square a double push passed over (none otherwise), the castling rights are
    masked by the two squares of the move, the half-move clock restarts on pawn moves and captures, the full-move
    number grows after Black's move. -/
theorem made_move_is_rules_successor (g g' : Game) (b : Board) (m : Move) (all : Bool)
    (wf : Wf g b) (nk : NoKingCapture g) (hm : m ∈ generateMoves g all) (hmk : makeCore g m = some g') :
    Wf g' (applyB b g.white m) ∧
    g'.white = (!g.white) ∧
    g'.ep = (if m.isDoublePush then (if g.white then m.toSq + 8 else m.toSq - 8) else SQNONE) ∧
    g'.castling = g.castling &&& (Gen.CASTLING_RIGHTS.getD m.toSq 0 &&& Gen.CASTLING_RIGHTS.getD m.fromSq 0) ∧
    g'.halfMoves = (if m.piece == WP || m.piece == BP || m.isCapture then 0 else (g.halfMoves + 1) % 256) ∧
    g'.fullMoves = (if g.white then g.fullMoves else (g.fullMoves + 1) % 65536) := by
  have fits := gen_fits wf nk all m hm
  obtain ⟨f1, f2, f3⟩ := makeCore_fields g g' m hmk
  obtain ⟨c1, c2⟩ := makeCore_clocks g g' m hmk
  exact ⟨makeCore_wf g g' m b wf fits hmk, f1, f2, f3, c1, c2⟩

/-- **T2.2** Refinement to the independent rules specification (`Spec.Rules`, mailbox board, coordinate arithmetic, no
    flags): for every generated move of a consistent position that `make_search_move` accepts, the rules position
    denoted by the engine's new position (`Spec.abs`, the map the run-time oracle prints as FEN) is `Spec.apply` of the
    rules position denoted by the old one - all six FEN fields. The clocks are `u8`/`u16` in the engine and unbounded in
    the specification, hence the two bounds. -/
theorem made_move_refines_rules (g g' : Game) (b : Board) (m : Move) (all : Bool)
    (wf : Wf g b) (nk : NoKingCapture g) (hm : m ∈ generateMoves g all) (hmk : makeCore g m = some g')
    (hh : g.halfMoves < 255) (hf : g.fullMoves < 65535) :
    Spec.abs g' = Spec.apply (Spec.abs g) (smove m) :=
  apply_refines wf (gen_fits wf nk all m hm) (gen_flags wf all m hm) hmk hh hf

/-- what consistency says in the engine's own terms: the piece sets are pairwise disjoint -/
theorem wf_disjoint (g : Game) (b : Board) (wf : Wf g b) (p q t : Nat) (hp : p < 12) (hq : q < 12) (ht : t < 64) (hne : p ≠ q) :
    ¬ (getBit (g.bb p) t = true ∧ getBit (g.bb q) t = true) := by
  intro ⟨h1, h2⟩
  unfold Game.bb at h1 h2
  rw [rep_bit g.bbs b wf.rep p t hp ht] at h1
  rw [rep_bit g.bbs b wf.rep q t hq ht] at h2
  simp only [decide_eq_true_eq] at h1 h2
  rw [h1] at h2; injection h2 with h2; exact hne h2

/-- ... the occupancy sets are the unions of the piece sets -/
theorem wf_occupancy (g : Game) (b : Board) (wf : Wf g b) (t : Nat) (ht : t < 64) :
    (getBit g.whiteOcc t = true ↔ ∃ p, p < 6 ∧ getBit (g.bb p) t = true) ∧
    (getBit g.blackOcc t = true ↔ ∃ p, 6 ≤ p ∧ p < 12 ∧ getBit (g.bb p) t = true) ∧
    (getBit g.allOcc t = true ↔ ∃ p, p < 12 ∧ getBit (g.bb p) t = true) := by
  have bitOf : ∀ q, q < 12 → (getBit (g.bb q) t = true ↔ b t = some q) := by
    intro q hq; unfold Game.bb; rw [rep_bit g.bbs b wf.rep q t hq ht]; simp
  refine ⟨?_, ?_, ?_⟩
  · rw [wf.occW t ht]
    constructor
    · intro h
      cases hb : b t with
      | none => rw [hb] at h; simp [whiteAt] at h
      | some v => rw [hb] at h; have hv : v < 6 := by simpa [whiteAt] using h
                  exact ⟨v, hv, (bitOf v (by omega)).2 hb⟩
    · intro ⟨p, hp, h⟩
      rw [(bitOf p (by omega)).1 h]; simpa [whiteAt] using hp
  · rw [wf.occB t ht]
    constructor
    · intro h
      cases hb : b t with
      | none => rw [hb] at h; simp [blackAt] at h
      | some v => rw [hb] at h; have hv : 6 ≤ v := by simpa [blackAt] using h
                  have hv12 := wf.ok.valid t v ht hb
                  exact ⟨v, hv, hv12, (bitOf v hv12).2 hb⟩
    · intro ⟨p, hp, hp12, h⟩
      rw [(bitOf p hp12).1 h]; simpa [blackAt] using hp
  · rw [wf.occA t ht]
    constructor
    · intro h
      cases hb : b t with
      | none => rw [hb] at h; simp at h
      | some v => have hv12 := wf.ok.valid t v ht hb
                  exact ⟨v, hv12, (bitOf v hv12).2 hb⟩
    · intro ⟨p, hp12, h⟩
      rw [(bitOf p hp12).1 h]; rfl

/-- ... and each side has exactly one king -/
theorem wf_kings (g : Game) (b : Board) (wf : Wf g b) :
    (∃ k, k < 64 ∧ ∀ t, t < 64 → (getBit (g.bb WK) t = true ↔ t = k)) ∧
    (∃ k, k < 64 ∧ ∀ t, t < 64 → (getBit (g.bb BK) t = true ↔ t = k)) := by
  have bitOf : ∀ q t, q < 12 → t < 64 → (getBit (g.bb q) t = true ↔ b t = some q) := by
    intro q t hq ht; unfold Game.bb; rw [rep_bit g.bbs b wf.rep q t hq ht]; simp
  obtain ⟨k, hk, hbk, hu⟩ := wf.ok.wking
  obtain ⟨k', hk', hbk', hu'⟩ := wf.ok.bking
  refine ⟨⟨k, hk, fun t ht => ?_⟩, ⟨k', hk', fun t ht => ?_⟩⟩
  · rw [bitOf WK t (by decide) ht]; exact ⟨hu t ht, fun h => by rw [h]; exact hbk⟩
  · rw [bitOf BK t (by decide) ht]; exact ⟨hu' t ht, fun h => by rw [h]; exact hbk'⟩

/-- **T2.3** Histories: from a consistent position in which the side not to move is not in check (both decidable and
    evaluated on every root), any sequence of generated moves that `make_search_move` accepts ends in a consistent
    position whose board is the rules' board after the moves - a stale occupancy bit or castling right cannot surface
    any number of plies later. The "no capture aims at a king" condition is an invariant, not a hypothesis per step:
    `make_search_move` refuses a move that leaves the mover's king attacked, and the reverse lookup of
    `is_square_attacked` finds every attacker the generator would (attack symmetry, `Lemmas/AttackSym`). -/
theorem history_consistent (g0 g : Game) (b0 : Board) (ms : List Move) (wf : Wf g0 b0) (nk : NoKingCapture g0)
    (hp : GenPath g0 ms) (hplay : playAll g0 ms = some g) :
    Wf g (boardAfter b0 g0.white ms) ∧ NoKingCapture g :=
  let h := history_wf_root ms g0 g b0 wf nk hp hplay
  ⟨h.1, h.2.1⟩

/-- one step of that invariant: after an accepted move no generated capture aims at the mover's king -/
theorem accepted_move_king_safe (g g' : Game) (b : Board) (m : Move) (all : Bool) (wf : Wf g b) (nk : NoKingCapture g)
    (hm : m ∈ generateMoves g all) (hmk : makeCore g m = some g') : NoKingCapture g' :=
  makeCore_nk g g' m b wf (gen_fits wf nk all m hm) hmk

/-- consistency is decidable (`WfD`), and the decision implies `Wf` for the board read off the piece sets: the roots
    the histories start from are checked by evaluation -/
theorem consistent_of_decision (g : Game) (h : WfD g) : Wf g (boardOf g) := h.wf

def startGame : Game :=
  { bbs := #[0x00ff000000000000, 0x4200000000000000, 0x2400000000000000, 0x8100000000000000, 0x0800000000000000, 0x1000000000000000,
             0x000000000000ff00, 0x0000000000000042, 0x0000000000000024, 0x0000000000000081, 0x0000000000000008, 0x0000000000000010],
    whiteOcc := 0xffff000000000000, blackOcc := 0x000000000000ffff, allOcc := 0xffff00000000ffff,
    white := true, ep := 64, castling := 15, fullMoves := 1, halfMoves := 0, key := 0x1210176a3cef702f }

set_option maxRecDepth 100000 in
/-- the hypotheses are satisfiable: the start position (as the engine dumps it) is consistent -/
theorem start_consistent : WfD startGame := by decide +kernel

end Jence.Props.C02
