/-
  C02 — making a legal move yields the rules-defined successor (first part: the packed move word).

  Model: `Jence.Move` (`src/cmove.rs`): the constructor packs eight fields into one word and the accessors unpack them.
-/
import Jence.Model.Types
namespace Jence.Props.C02
open Jence

private def b2n (b : Bool) : Nat := if b then 1 else 0

private theorem flag_eq (K : Nat) (b : Bool) : (if b then K else 0) = K * b2n b := by
  cases b <;> simp [b2n]

private theorem b2n_le (b : Bool) : b2n b ≤ 1 := by cases b <;> simp [b2n]

private theorem beq_one_iff (n : Nat) (b : Bool) (h : n = b2n b) : (n == 1) = b := by
  cases b <;> simp [b2n] at h <;> simp [h]

/-- **T2.4** Every accessor returns what the constructor was given, for all squares `< 64`, piece and promotion
    indices `< 16` and all flag combinations: the 24-bit packing loses nothing. -/
theorem move_pack_roundtrip (f t p pr : Nat) (cap dbl ep cas : Bool)
    (hf : f < 64) (ht : t < 64) (hp : p < 16) (hpr : pr < 16) :
    let m := Move.mk' f t p pr cap dbl ep cas
    m.fromSq = f ∧ m.toSq = t ∧ m.piece = p ∧ m.promotion = pr ∧
    m.isCapture = cap ∧ m.isDoublePush = dbl ∧ m.isEnpassant = ep ∧ m.isCastling = cas := by
  simp only [Move.mk', Move.fromSq, Move.toSq, Move.piece, Move.promotion, Move.isCapture, Move.isDoublePush,
    Move.isEnpassant, Move.isCastling, flag_eq]
  have h1 := b2n_le cap; have h2 := b2n_le dbl; have h3 := b2n_le ep; have h4 := b2n_le cas
  refine ⟨by omega, by omega, by omega, by omega, ?_, ?_, ?_, ?_⟩
  · exact beq_one_iff _ _ (by omega)
  · exact beq_one_iff _ _ (by omega)
  · exact beq_one_iff _ _ (by omega)
  · exact beq_one_iff _ _ (by omega)

/-- the packing is injective: two moves with the same word have the same fields (so `==` on moves is field equality) -/
theorem move_pack_injective (f t p pr f' t' p' pr' : Nat) (c d e k c' d' e' k' : Bool)
    (hf : f < 64) (ht : t < 64) (hp : p < 16) (hpr : pr < 16) (hf' : f' < 64) (ht' : t' < 64) (hp' : p' < 16) (hpr' : pr' < 16)
    (h : Move.mk' f t p pr c d e k = Move.mk' f' t' p' pr' c' d' e' k') :
    f = f' ∧ t = t' ∧ p = p' ∧ pr = pr' ∧ c = c' ∧ d = d' ∧ e = e' ∧ k = k' := by
  have h1 := move_pack_roundtrip f t p pr c d e k hf ht hp hpr
  have h2 := move_pack_roundtrip f' t' p' pr' c' d' e' k' hf' ht' hp' hpr'
  simp only at h1 h2
  rw [h] at h1
  obtain ⟨a1, a2, a3, a4, a5, a6, a7, a8⟩ := h1
  obtain ⟨b1, b2, b3, b4, b5, b6, b7, b8⟩ := h2
  exact ⟨a1.symm.trans b1, a2.symm.trans b2, a3.symm.trans b3, a4.symm.trans b4,
         a5.symm.trans b5, a6.symm.trans b6, a7.symm.trans b7, a8.symm.trans b8⟩

/-- no generated move is the null move: a packed move with `from ≠ to` or a non-zero piece is not `NULL_MOVE` -/
theorem mk_ne_null (f t p pr : Nat) (c d e k : Bool) (h : f ≠ 0 ∨ t ≠ 0 ∨ p ≠ 0 ∨ pr ≠ 0) :
    Move.mk' f t p pr c d e k ≠ Move.null := by
  intro heq
  have : (Move.mk' f t p pr c d e k).data = 0 := by rw [heq]; rfl
  simp only [Move.mk'] at this
  omega

example : (Move.mk' 52 36 0 12 false true false false).toUci = "e2e4" := by decide

end Jence.Props.C02
