/-
  C14 — perft counts are exact and independent of the thread count (the parts a theorem can carry).

  Model: `Jence.perft` (`src/perft.rs`). The `rayon` reduction may add the per-move counts in any order and any
  bracketing; worker scheduling itself is outside the model (covered by runs under 1..16 threads).
-/
import Jence.Model.Perft
import Jence.Props.C01
import Jence.Lemmas.SpecNodup
namespace Jence.Props.C14
open Jence

/-- **T14.2a** The total does not depend on the order in which the per-move counts are added. -/
theorem sum_perm (l₁ l₂ : List Nat) (h : l₁.Perm l₂) : l₁.sum = l₂.sum := by
  induction h with
  | nil => rfl
  | cons x _ ih => simp [ih]
  | swap x y l => simp; omega
  | trans _ _ ih₁ ih₂ => exact ih₁.trans ih₂

/-- **T14.2b** … nor on how the counts are grouped into partial sums (any split of the move list into chunks, each
    reduced on its own, the partial results added up). -/
theorem sum_chunks (chunks : List (List Nat)) : (chunks.map List.sum).sum = chunks.flatten.sum := by
  induction chunks with
  | nil => rfl
  | cons c cs ih => simp [ih]

/-- both freedoms at once: any permutation of the per-move counts, cut into any chunks -/
theorem parallel_sum_exact (counts : List Nat) (chunks : List (List Nat)) (h : chunks.flatten.Perm counts) :
    (chunks.map List.sum).sum = counts.sum := by
  rw [sum_chunks]; exact sum_perm _ _ h

/-- the move sequences perft counts: the last move passes the legality filter (bulk count at depth 1), every earlier
    move survives `make_move` and the rest is a sequence from the resulting position -/
def seqs (g : Game) : Nat → List (List Move)
  | 0 => []
  | 1 => (legalValues g).map fun m => [m]
  | d + 2 => (generateMoves g true).flatMap fun m =>
      match makeMove g m with
      | some g' => (seqs g' (d + 1)).map fun s => m :: s
      | none => []

/-- **T14.1** `perft g d` is the number of such move sequences of length `d`, for every depth. -/
theorem perft_counts_sequences (g : Game) (d : Nat) : perft g d = (seqs g d).length := by
  induction d using Nat.strongRecOn generalizing g with
  | _ d ih =>
    match d with
    | 0 => rfl
    | 1 => simp [perft, seqs, bulkCount, legalValues]
    | d + 2 =>
      simp only [perft, seqs, List.length_flatMap]
      congr 1
      apply List.map_congr_left
      intro m _
      cases makeMove g m with
      | none => rfl
      | some g' => simp [ih (d + 1) (by omega) g']

/-- at depth 1 the bulk count (legality filter) equals the number of moves `make` accepts: the two branches of `perft`
    count the same thing (T1.2) -/
theorem bulk_eq_made (g : Game) (hep : g.ep ≤ 64) :
    perft g 1 = ((generateMoves g true).filter fun m => (makeMove g m).isSome).length := by
  simp only [perft, bulkCount]
  congr 1
  apply List.filter_congr
  intro m hm
  rw [C01.legality_paths_agree g hep true m hm]
  simp [makeMove, makeSearchMove]

/-- every counted sequence has the requested length -/
theorem seqs_length (g : Game) (d : Nat) : ∀ s ∈ seqs g d, s.length = d := by
  induction d using Nat.strongRecOn generalizing g with
  | _ d ih =>
    match d with
    | 0 => simp [seqs]
    | 1 => intro s hs; simp [seqs] at hs; obtain ⟨m, _, rfl⟩ := hs; rfl
    | d + 2 =>
      intro s hs
      simp only [seqs, List.mem_flatMap] at hs
      obtain ⟨m, _, hm⟩ := hs
      cases hmk : makeMove g m with
      | none => simp [hmk] at hm
      | some g' =>
        simp only [hmk, List.mem_map] at hm
        obtain ⟨s', hs', rfl⟩ := hm
        simp [ih (d + 1) (by omega) g' s' hs']

example : [3, 1, 2].Perm [1, 2, 3] := by decide
example : ([[3], [1, 2]].map List.sum).sum = [1, 2, 3].sum := parallel_sum_exact _ _ (by decide)

theorem makeMove_eq_core (g : Game) (m : Move) : makeMove g m = makeCore g m := by
  unfold makeMove makeSearchMove
  cases makeCore g m <;> rfl

theorem sum_map_filter {α : Type} (l : List α) (acc : α → Bool) (f : α → Nat) (h : ∀ a ∈ l, acc a = false → f a = 0) :
    (l.map f).sum = ((l.filter acc).map f).sum := by
  induction l with
  | nil => rfl
  | cons a l ih =>
    simp only [List.map_cons, List.sum_cons, List.filter_cons]
    have ih' := ih (fun x hx => h x (List.mem_cons_of_mem _ hx))
    cases ha : acc a
    · simp only [Bool.false_eq_true, if_false]
      rw [h a List.mem_cons_self ha, ih']; omega
    · simp only [if_true, List.map_cons, List.sum_cons]; rw [ih']

theorem sum_map_congr {α : Type} (l : List α) (f f' : α → Nat) (h : ∀ a ∈ l, f a = f' a) : (l.map f).sum = (l.map f').sum := by
  induction l with
  | nil => rfl
  | cons a l ih =>
    simp only [List.map_cons, List.sum_cons]
    rw [h a List.mem_cons_self, ih (fun x hx => h x (List.mem_cons_of_mem _ hx))]

/-- **T14.1 perft is the rules' perft.** For a consistent position in which the side not to move is not in check, the
    engine's perft (bulk count at depth 1, make-and-recurse above; any summation order, T14.2) equals the number of legal
    move sequences of that length by the rules specification - for every depth (the clocks staying below their `u8`/`u16`
    limits along the way, which `Spec.apply` does not model). -/
theorem perft_is_rules_perft : ∀ (d : Nat) (g : Game) (b : Board), Wf g b → NoKingCapture g →
    g.halfMoves + d < 255 → g.fullMoves + d < 65535 → perft g (d + 1) = Spec.perft (Spec.abs g) (d + 1) := by
  intro d
  induction d with
  | zero =>
    intro g b wf nk _ _
    have hp := legal_perm wf nk
    show bulkCount g = ((Spec.legalMoves (Spec.abs g)).map fun m => Spec.perft (Spec.apply (Spec.abs g) m) 0).sum
    have h1 : bulkCount g = (legalValues g).length := rfl
    have h2 : ((Spec.legalMoves (Spec.abs g)).map fun m => Spec.perft (Spec.apply (Spec.abs g) m) 0).sum =
        (Spec.legalMoves (Spec.abs g)).length := by
      generalize Spec.legalMoves (Spec.abs g) = l
      induction l with
      | nil => rfl
      | cons a l ih =>
        simp only [List.map_cons, List.sum_cons, List.length_cons]
        rw [ih]; simp only [Spec.perft]; omega
    rw [h1, h2, ← hp.length_eq, List.length_map]
  | succ d ih =>
    intro g b wf nk hh hfm
    have hp := legal_perm wf nk
    show ((generateMoves g true).map fun m => match makeMove g m with | some g' => perft g' (d + 1) | none => 0).sum =
      ((Spec.legalMoves (Spec.abs g)).map fun m => Spec.perft (Spec.apply (Spec.abs g) m) (d + 1)).sum
    -- only accepted moves contribute
    rw [sum_map_filter _ (fun m => (makeCore g m).isSome) _ (fun m _ hacc => by
      rw [makeMove_eq_core]
      cases h : makeCore g m with
      | none => rfl
      | some g' => rw [h] at hacc; exact absurd hacc (by simp))]
    rw [← C01.legalValues_eq_made g wf.ok.epLe]
    -- each accepted move leads to a consistent position that denotes the rules' successor
    rw [sum_map_congr (legalValues g) _ (fun m => Spec.perft (Spec.apply (Spec.abs g) (smove m)) (d + 1)) (fun m hm => by
      have hgen : m ∈ generateMoves g true := (List.mem_filter.1 hm).1
      have hacc := C01.legal_moves_can_be_made g wf.ok.epLe m hm
      rw [makeMove_eq_core]
      cases hmk : makeCore g m with
      | none => rw [hmk] at hacc; exact absurd hacc (by simp)
      | some g' =>
        simp only
        have fits := gen_fits wf nk true m hgen
        have flags := gen_flags wf true m hgen
        have wf' := makeCore_wf g g' m b wf fits hmk
        have nk' := makeCore_nk g g' m b wf fits hmk
        obtain ⟨ch, cf⟩ := makeCore_clocks g g' m hmk
        have hh' : g'.halfMoves + d < 255 := by
          rw [ch]; split
          · omega
          · have : (g.halfMoves + 1) % 256 = g.halfMoves + 1 := Nat.mod_eq_of_lt (by omega)
            omega
        have hf' : g'.fullMoves + d < 65535 := by
          rw [cf]; split
          · omega
          · have : (g.fullMoves + 1) % 65536 = g.fullMoves + 1 := Nat.mod_eq_of_lt (by omega)
            omega
        rw [ih g' _ wf' nk' hh' hf', apply_refines wf fits flags hmk (by omega) (by omega)])]
    have : ((legalValues g).map fun m => Spec.perft (Spec.apply (Spec.abs g) (smove m)) (d + 1)) =
        (((legalValues g).map smove).map fun sm => Spec.perft (Spec.apply (Spec.abs g) sm) (d + 1)) := by
      rw [List.map_map]; rfl
    rw [this]
    exact sum_perm _ _ (hp.map _)

end Jence.Props.C14
