/-
  C14 — perft counts are exact and independent of the thread count (the parts a theorem can carry).

  Model: `Jence.perft` (`src/perft.rs`). The `rayon` reduction may add the per-move counts in any order and any
  bracketing; worker scheduling itself is outside the model (covered by runs under 1..16 threads).
-/
import Jence.Model.Perft
import Jence.Props.C01
namespace Jence.Props.C14
open Jence

/-- **T14.2a** The total does not depend on the order in which the per-move counts are added. -/
theorem sum_perm (l₁ l₂ : List Nat) (h : l₁.Perm l₂) : l₁.sum = l₂.sum := by
  induction h with
  | nil => rfl
  | cons x _ ih => simp [ih]
  | swap x y l => simp; omega
  | trans _ _ ih₁ ih₂ => exact ih₁.trans ih₂

/-- **T14.2b** … nor on how the counts are grouped into partial sums (any split of the move list into chunks, each
    reduced on its own, the partial results added up). -/
theorem sum_chunks (chunks : List (List Nat)) : (chunks.map List.sum).sum = chunks.flatten.sum := by
  induction chunks with
  | nil => rfl
  | cons c cs ih => simp [ih]

/-- both freedoms at once: any permutation of the per-move counts, cut into any chunks -/
theorem parallel_sum_exact (counts : List Nat) (chunks : List (List Nat)) (h : chunks.flatten.Perm counts) :
    (chunks.map List.sum).sum = counts.sum := by
  rw [sum_chunks]; exact sum_perm _ _ h

/-- the move sequences perft counts: the last move passes the legality filter (bulk count at depth 1), every earlier
    move survives `make_move` and the rest is a sequence from the resulting position -/
def seqs (g : Game) : Nat → List (List Move)
  | 0 => []
  | 1 => (legalValues g).map fun m => [m]
  | d + 2 => (generateMoves g true).flatMap fun m =>
      match makeMove g m with
      | some g' => (seqs g' (d + 1)).map fun s => m :: s
      | none => []

/-- **T14.1** `perft g d` is the number of such move sequences of length `d`, for every depth. -/
theorem perft_counts_sequences (g : Game) (d : Nat) : perft g d = (seqs g d).length := by
  induction d using Nat.strongRecOn generalizing g with
  | _ d ih =>
    match d with
    | 0 => rfl
    | 1 => simp [perft, seqs, bulkCount, legalValues]
    | d + 2 =>
      simp only [perft, seqs, List.length_flatMap]
      congr 1
      apply List.map_congr_left
      intro m _
      cases makeMove g m with
      | none => rfl
      | some g' => simp [ih (d + 1) (by omega) g']

/-- at depth 1 the bulk count (legality filter) equals the number of moves `make` accepts: the two branches of `perft`
    count the same thing (T1.2) -/
theorem bulk_eq_made (g : Game) (hep : g.ep ≤ 64) :
    perft g 1 = ((generateMoves g true).filter fun m => (makeMove g m).isSome).length := by
  simp only [perft, bulkCount]
  congr 1
  apply List.filter_congr
  intro m hm
  rw [C01.legality_paths_agree g hep true m hm]
  simp [makeMove, makeSearchMove]

/-- every counted sequence has the requested length -/
theorem seqs_length (g : Game) (d : Nat) : ∀ s ∈ seqs g d, s.length = d := by
  induction d using Nat.strongRecOn generalizing g with
  | _ d ih =>
    match d with
    | 0 => simp [seqs]
    | 1 => intro s hs; simp [seqs] at hs; obtain ⟨m, _, rfl⟩ := hs; rfl
    | d + 2 =>
      intro s hs
      simp only [seqs, List.mem_flatMap] at hs
      obtain ⟨m, _, hm⟩ := hs
      cases hmk : makeMove g m with
      | none => simp [hmk] at hm
      | some g' =>
        simp only [hmk, List.mem_map] at hm
        obtain ⟨s', hs', rfl⟩ := hm
        simp [ih (d + 1) (by omega) g' s' hs']

example : [3, 1, 2].Perm [1, 2, 3] := by decide
example : ([[3], [1, 2]].map List.sum).sum = [1, 2, 3].sum := parallel_sum_exact _ _ (by decide)

end Jence.Props.C14
