/-
  C05 at the command loop (`Model/Uci`): what a `position` line leaves behind does not depend on what the session did
  before - it is what the same line leaves in a freshly started process.
-/
import Jence.Props.C13Session
import Jence.Props.C05
namespace Jence.Props.C05
open Jence

/-- **T5.1 at the command loop** In any session state (any earlier games and searches; history array not overflowed), a
    `position` line whose arguments a fresh process parses to the game `g` with history `rep` leaves this session with
    the same game and the same recorded history (`position_history` says what those are: the last position of the game
    and the key of every position from the base through the final one). -/
theorem session_position_like_fresh (W : Nat → Cfg) (s : Session) (line : String) (hne : line ≠ "")
    (h : Env.firstWordLower line = "position") (hmore : (line.splitOn " ").length ≥ 2)
    (ho : s.rep.overflow = false) (hsz : s.rep.table.size = Gen.REP_CAPACITY) (g : Game) (rep : RepTable)
    (hnew : parsePosition (String.ofList (line.toList.drop 9)) RepTable.new = .ok (g, rep)) :
    (s.step W line).1.game = g ∧ (s.step W line).1.rep.pre = rep.pre ∧ (s.step W line).1.rep.index = rep.index ∧
    (s.step W line).1.panicked = s.panicked := by
  rw [C13.session_position W s line hne h hmore]
  have hx := parsePosition_ext (String.ofList (line.toList.drop 9)) s.rep.clear RepTable.new (clear_like_new s.rep ho hsz)
  rw [hnew] at hx
  cases hp : parsePosition (String.ofList (line.toList.drop 9)) s.rep.clear with
  | ok a =>
    obtain ⟨g1, r1⟩ := a
    rw [hp] at hx
    obtain ⟨hg, hr⟩ := hx
    exact ⟨hg, hr.pre, hr.1, rfl⟩
  | none => rw [hp] at hx; exact absurd hx (by simp [ResEq])
  | panic => rw [hp] at hx; exact absurd hx (by simp [ResEq])

end Jence.Props.C05
