/-
  C05 — `position` reconstructs the exact game state (the parts about move strings and the recorded history).

  Model: `Jence.parseMove` (`Game::parse_move`), `Jence.replayMoves` / `Jence.parsePosition` (`parse_position` in
  `src/main.rs`), `Jence.RepTable` (`src/repetition_table.rs`).
-/
import Jence.Model.Fen
import Jence.Props.C01
import Jence.Lemmas.UciString
import Jence.Lemmas.LegalMoves
namespace Jence.Props.C05
open Jence

theorem squareFromString_le (s : String) (i : Nat) (h : squareFromString s = some i) : i ≤ 64 := by
  unfold squareFromString at h
  split at h
  · simp only at h
    repeat' split at h
    all_goals (first | (simp at h; omega) | simp at h)
  · simp at h

theorem parseEp_le (s : String) (i : Nat) (h : parseEp s = some i) : i ≤ 64 := by
  unfold parseEp at h
  split at h
  · exact squareFromString_le s i h
  · simp only [Option.some.injEq] at h; rw [← h]; decide

/-- a parsed FEN carries a square number or "none" in its en-passant field -/
theorem parseFen_ep (s : String) (g : Game) (h : parseFen s = .ok g) : g.ep ≤ 64 := by
  unfold parseFen at h
  simp only at h
  repeat' split at h
  all_goals (try (simp at h))
  all_goals (subst h; exact parseEp_le _ _ ‹parseEp _ = some _›)

/-- **T5.3a** A string is accepted only if it is the UCI string of a move of the engine's legal list, and that move is
    what `parse_move` returns. -/
theorem parseMove_sound (g : Game) (s : String) (m : Move) (h : parseMove g s = some m) :
    m ∈ legalValues g ∧ m.toUci = s := by
  unfold parseMove at h
  have h1 := List.mem_of_find?_eq_some h
  have h2 := List.find?_some h
  exact ⟨h1, by simpa using h2⟩

/-- **T5.3b** Every string that is the UCI string of a legal move is accepted. -/
theorem parseMove_complete (g : Game) (s : String) (m : Move) (hm : m ∈ legalValues g) (hs : m.toUci = s) :
    ∃ m', parseMove g s = some m' ∧ m'.toUci = s := by
  unfold parseMove
  cases h : List.find? (fun m => m.toUci == s) (legalValues g) with
  | none =>
    have := List.find?_eq_none.mp h m hm
    simp [hs] at this
  | some m' => exact ⟨m', rfl, by simpa using List.find?_some h⟩

/-- **T5.3** accepted strings = strings of legal moves -/
theorem parseMove_accepts_exactly (g : Game) (s : String) :
    (parseMove g s).isSome ↔ ∃ m ∈ legalValues g, m.toUci = s := by
  constructor
  · intro h
    obtain ⟨m, hm⟩ := Option.isSome_iff_exists.mp h
    exact ⟨m, parseMove_sound g s m hm⟩
  · rintro ⟨m, hm, hs⟩
    obtain ⟨m', h', _⟩ := parseMove_complete g s m hm hs
    simp [h']

/-- **T5.2** In a consistent position in which the side not to move is not in check, no two different moves of the
    generated list - in particular no two legal moves - have the same UCI string: the string fixes source square, target
    square and promotion kind (`Lemmas/UciString.toUci_determines`: the 64 square names are distinct two-character strings,
    the promotion letters distinct one-character strings, kernel-decided over the generated tables), and those fix the
    move word (`smove_inj`). -/
theorem uci_strings_distinct {g : Game} {b : Board} (wf : Wf g b) (nk : NoKingCapture g) (m1 m2 : Move)
    (h1 : m1 ∈ generateMoves g true) (h2 : m2 ∈ generateMoves g true) (h : m1.toUci = m2.toUci) : m1 = m2 := by
  have f1 := gen_fits wf nk true m1 h1
  have f2 := gen_fits wf nk true m2 h2
  exact smove_inj wf nk m1 m2 h1 h2
    (toUci_determines m1 m2 f1.fromLt f1.toLt f2.fromLt f2.toLt (fun hp => ownP_lt (f1.promo hp).1) (fun hp => ownP_lt (f2.promo hp).1) h)

/-- **T5.2/T5.3** every legal move is what its own UCI string parses to -/
theorem parseMove_toUci {g : Game} {b : Board} (wf : Wf g b) (nk : NoKingCapture g) (m : Move) (hm : m ∈ legalValues g) :
    parseMove g m.toUci = some m := by
  obtain ⟨m', h', hs⟩ := parseMove_complete g m.toUci m hm rfl
  have hm' := (parseMove_sound g m.toUci m' h').1
  have e : m' = m := uci_strings_distinct wf nk m' m (List.mem_filter.1 hm').1 (List.mem_filter.1 hm).1 hs
  rw [h', e]

/-- the string of a legal move names the rules move it denotes: accepted strings correspond one to one to the legal moves
    of the rules specification (with T1.3 `legal_refines`) -/
theorem accepted_string_names_rules_move {g : Game} {b : Board} (wf : Wf g b) (nk : NoKingCapture g) (s : String) (m : Move)
    (h : parseMove g s = some m) : smove m ∈ Spec.legalMoves (Spec.abs g) ∧ m.toUci = s := by
  obtain ⟨hm, hs⟩ := parseMove_sound g s m h
  exact ⟨(legal_refines wf nk _).2 ⟨m, hm, rfl⟩, hs⟩

/-! ### The recorded history -/

theorem pre_insert (r : RepTable) (h : UInt64) (hlt : r.index < r.table.size) :
    (r.insert h).pre = r.pre ++ [h] ∧ (r.insert h).index = r.index + 1 ∧ (r.insert h).table.size = r.table.size ∧
    (r.insert h).overflow = r.overflow := by
  unfold RepTable.insert RepTable.pre
  simp only [hlt, ↓reduceIte, List.range_succ, List.map_append, List.map_cons, List.map_nil, Array.size_setIfInBounds,
    and_true]
  congr 1
  · apply List.map_congr_left
    intro i hi
    have : i < r.index := List.mem_range.mp hi
    have hne : r.index ≠ i := by omega
    simp [Array.getD_eq_getD_getElem?, Array.getElem?_setIfInBounds, hne]
  · simp [Array.getD_eq_getD_getElem?, Array.getElem?_setIfInBounds, hlt]

/-- the positions a move list leads through (each move parsed against, and made in, the position before it) -/
def playAll : Game → List String → Option (List Game)
  | _, [] => some []
  | g, mv :: rest =>
    match parseMove g mv with
    | none => none
    | some m => match makeCore g m with
      | none => none
      | some g' => (playAll g' rest).map (g' :: ·)

/-- **T5.1a** Replaying a move list (within the capacity of the history array) ends in the last position of `playAll`
    and appends exactly the keys of the positions passed through, in order. -/
theorem replay_history (mvs : List String) (g : Game) (hep : g.ep ≤ 64) (rep : RepTable) (g' : Game) (rep' : RepTable)
    (h : replayMoves mvs g rep = .ok (g', rep')) (hov : rep.overflow = false) :
    ∃ gs, playAll g mvs = some gs ∧ gs.length = mvs.length ∧ g' = (g :: gs).getLast (by simp) ∧
      rep'.pre = rep.pre ++ gs.map (·.key) ∧ rep'.index = rep.index + mvs.length := by
  induction mvs generalizing g rep with
  | nil =>
    simp only [replayMoves, Res.ok.injEq, Prod.mk.injEq] at h
    obtain ⟨rfl, rfl⟩ := h
    exact ⟨[], rfl, rfl, rfl, by simp, by simp⟩
  | cons mv rest ih =>
    simp only [replayMoves] at h
    cases hp : parseMove g mv with
    | none => simp [hp] at h
    | some m =>
      simp only [hp] at h
      cases hm : makeSearchMove g m rep with
      | none =>
        simp only [hm] at h
        unfold makeSearchMove at hm
        cases hc : makeCore g m with
        | none =>
          have := C01.legal_moves_can_be_made g hep m (parseMove_sound g mv m hp).1
          simp [hc] at this
        | some g2 => simp [hc] at hm
      | some pr =>
        obtain ⟨g2, rep2⟩ := pr
        simp only [hm] at h
        unfold makeSearchMove at hm
        cases hc : makeCore g m with
        | none => simp [hc] at hm
        | some g3 =>
          simp only [hc, Option.map_some, Option.some.injEq, Prod.mk.injEq] at hm
          obtain ⟨rfl, rfl⟩ := hm
          have hlt : rep.index < rep.table.size := by
            by_cases hlt : rep.index < rep.table.size
            · exact hlt
            · have : (rep.insert g3.key).overflow = true := by simp [RepTable.insert, hlt]
              simp [this] at h
          obtain ⟨hpre, hidx, hsz, hovf⟩ := pre_insert rep g3.key hlt
          have hov2 : (rep.insert g3.key).overflow = false := by rw [hovf, hov]
          simp only [hov2, Bool.false_eq_true, ↓reduceIte] at h
          have hep3 : g3.ep ≤ 64 := by
            have hm' := (parseMove_sound g mv m hp).1
            have hgen : m ∈ generateMoves g true := (List.mem_filter.mp hm').1
            exact C01.makeCore_ep g g3 m (C01.generated_shape g true hep m hgen) hc
          obtain ⟨gs, hgs, hlen, hlast, hp', hi'⟩ := ih g3 hep3 (rep.insert g3.key) h hov2
          refine ⟨g3 :: gs, by simp [playAll, hp, hc, hgs], by simp [hlen], ?_, ?_, ?_⟩
          · rw [hlast]; simp [List.getLast_cons]
          · rw [hp', hpre]; simp
          · rw [hi', hidx]; simp; omega

/-- **T5.1** `position [startpos|fen F] [moves …]`: when the command succeeds, the engine is left in the last position of
    the game that starts at the base position, and the recorded history is the key of *every* position of that game,
    from the base position through the final one (in order, nothing else) — commit `0eb7154` added the base position. No hypothesis: that every move of the legal list
    can be made is `Props/C01.legal_moves_can_be_made` (T1.2).
    A move list that would overrun the history array does not succeed (recorded finding D7). -/
theorem position_history (args : String) (g : Game) (rep : RepTable) (h : parsePosition args RepTable.new = .ok (g, rep)) :
    ∃ base mvs gs, playAll base mvs = some gs ∧ gs.length = mvs.length ∧ g = (base :: gs).getLast (by simp) ∧
      rep.pre = (base :: gs).map (·.key) ∧ rep.index = mvs.length + 1 := by
  unfold parsePosition at h
  simp only at h
  split at h
  · simp at h
  · simp at h
  · rename_i base rest hb
    have hbase : base.ep ≤ 64 := by
      revert hb
      split
      · split
        · rename_i g0 hg0
          intro hb; simp only [Res.ok.injEq, Prod.mk.injEq] at hb; rw [← hb.1]; exact parseFen_ep _ _ hg0
        · intro hb; simp at hb
      · split
        · split
          · intro hb; simp at hb
          · split
            · rename_i g0 hg0
              intro hb; simp only [Res.ok.injEq, Prod.mk.injEq] at hb; rw [← hb.1]; exact parseFen_ep _ _ hg0
            · intro hb; simp at hb
            · intro hb; simp at hb
        · intro hb; simp at hb
    have hnew : (RepTable.new.insert base.key).overflow = false ∧ (RepTable.new.insert base.key).pre = [base.key] ∧
        (RepTable.new.insert base.key).index = 1 := by
      have hlt : RepTable.new.index < RepTable.new.table.size := by simp [RepTable.new]; decide
      obtain ⟨h1, h2, _, h4⟩ := pre_insert RepTable.new base.key hlt
      exact ⟨by rw [h4]; rfl, by rw [h1]; rfl, by rw [h2]; rfl⟩
    obtain ⟨ho, hp, hi⟩ := hnew
    simp only [ho, Bool.false_eq_true, ↓reduceIte] at h
    split at h
    · rename_i mvs _
      obtain ⟨gs, h1, h2, h3, h4, h5⟩ := replay_history mvs base hbase _ g rep h ho
      exact ⟨base, mvs, gs, h1, h2, h3, by rw [h4, hp]; rfl, by rw [h5, hi]; omega⟩
    · simp only [Res.ok.injEq, Prod.mk.injEq] at h
      obtain ⟨rfl, rfl⟩ := h
      exact ⟨base, [], [], rfl, rfl, rfl, by rw [hp]; rfl, by rw [hi]; rfl⟩

end Jence.Props.C05
