/-
  C03 at the command loop (`Model/Uci`): the `bestmove` line a `go` ends with names a move that is legal by the rules.
-/
import Jence.Props.C13Session
import Jence.Props.C03
namespace Jence.Props.C03
open Jence

/-- **T3.1 at the command loop** In a session whose position is consistent, with the side not to move not in check, at
    least one legal move and room in the history array, every `go` line that reaches the search - whatever its form, its
    budget, the table content and the lines arriving while it runs - ends its output with `bestmove m` where `m` denotes a
    move that is legal by the rules specification. -/
theorem session_go_answers_with_a_legal_move (W : Nat → Cfg) (s : Session) (b : Board) (line : String) (hne : line ≠ "")
    (h : Env.firstWordLower line = "go") (msgs : List String) (d t : Int)
    (hp : parseGo s.game.white (String.ofList (line.toList.drop 2)) = (msgs, .search d t))
    (wf : Wf s.game b) (nk : NoKingCapture s.game) (hlegal : legalValues s.game ≠ []) (hroom : HistoryRoom s.rep) :
    ∃ (before : Array String) (m : Move), (s.step W line).1.out = s.out ++ msgs.toArray ++ before.push s!"bestmove {m.toUci}" ∧
      smove m ∈ Spec.legalMoves (Spec.abs s.game) := by
  have ho := (search_no_overflow chessRules { W s.searches with maxTime := t } s.game d s.tt s.rep hroom).1
  obtain ⟨hout, _, _, _, _, _, before, hb⟩ := C13.session_go W s line hne h msgs d t hp ho
  refine ⟨before, (search chessRules { W s.searches with maxTime := t } s.game d s.tt s.rep).1.bestMove, ?_,
    bestmove_rules_legal_of_room _ s.game b d s.tt s.rep wf nk hlegal hroom⟩
  rw [hout, hb]

end Jence.Props.C03
