/-
  C13 at the level of the command loop (`Model/Uci`): what each command does to the session, that `quit` ends the loop,
  that lines a search hands back are read before anything else, and (with C18) that `ucinewgame` + `position` + `go`
  prints what a fresh process prints.
-/
import Jence.Model.Uci
import Jence.Props.C13
import Jence.Props.C18
namespace Jence.Props.C13
open Jence

/-- **T13.1a** `isready` at the command loop is answered with `readyok`, whatever the state -/
theorem session_isready (W : Nat → Cfg) (s : Session) (line : String) (hne : line ≠ "") (h : Env.firstWordLower line = "isready") :
    s.step W line = (s.print ["readyok"], []) := by
  unfold Session.step
  rw [if_neg (by simpa using hne)]
  simp only [h]

/-- **T13.1b** `uci` is answered with the identification and `uciok` -/
theorem session_uci (W : Nat → Cfg) (s : Session) (line : String) (hne : line ≠ "") (h : Env.firstWordLower line = "uci") :
    s.step W line = (s.print ["id name JENCE", "id author Joachim Enggaard Nebel", "uciok"], []) := by
  unfold Session.step
  rw [if_neg (by simpa using hne)]
  simp only [h]

/-- **T13.1c** `quit` ends the session: the loop stops, nothing is handed back -/
theorem session_quit (W : Nat → Cfg) (s : Session) (line : String) (hne : line ≠ "") (h : Env.firstWordLower line = "quit") :
    s.step W line = ({ s.print [" Exited!"] with running := false }, []) := by
  unfold Session.step
  rw [if_neg (by simpa using hne)]
  simp only [h]

/-- the loop does nothing once the session has ended -/
theorem run_ended (W : Nat → Cfg) (fuel : Nat) (s : Session) (ls : List String) (h : s.running = false) : Session.run W fuel s ls = s := by
  cases fuel with
  | zero => rfl
  | succ f =>
    cases ls with
    | nil => rfl
    | cons l rest => simp [Session.run, h]

/-- one turn of the loop: lines handed back by the command come before the rest of the input -/
theorem run_step (W : Nat → Cfg) (fuel : Nat) (s : Session) (l : String) (rest : List String) (h : s.running = true) :
    Session.run W (fuel + 1) s (l :: rest) = Session.run W fuel (s.step W l).1 ((s.step W l).2 ++ rest) := by
  simp [Session.run, h]

/-- **T13.1c'** whatever follows `quit` in the input is never acted on -/
theorem nothing_after_quit (W : Nat → Cfg) (fuel : Nat) (s : Session) (line : String) (rest : List String) (hr : s.running = true)
    (hne : line ≠ "") (h : Env.firstWordLower line = "quit") :
    Session.run W (fuel + 1) s (line :: rest) = { s.print [" Exited!"] with running := false } := by
  rw [run_step W fuel s line rest hr, session_quit W s line hne h]
  exact run_ended W fuel _ _ rfl

/-- **T13.1d** `go`: the lines `parse_go` prints, then the lines of the search, the last of which is the one `bestmove`
    line; the table and the history array are the ones the search left; and every line the search took off the input
    without handling it (`deferred`), followed by everything still in the channel, is what the loop reads next - no
    command is lost. -/
theorem session_go (W : Nat → Cfg) (s : Session) (line : String) (hne : line ≠ "") (h : Env.firstWordLower line = "go")
    (msgs : List String) (d t : Int) (hp : parseGo s.game.white (String.ofList (line.toList.drop 2)) = (msgs, .search d t))
    (ho : (search chessRules { W s.searches with maxTime := t } s.game d s.tt s.rep).2.rep.overflow = false) :
    let r := search chessRules { W s.searches with maxTime := t } s.game d s.tt s.rep
    (s.step W line).1.out = s.out ++ msgs.toArray ++ r.2.out.toList.toArray ∧
    (s.step W line).1.tt = r.2.tt ∧ (s.step W line).1.rep = r.2.rep ∧ (s.step W line).1.game = s.game ∧
    (s.step W line).1.running = s.running ∧
    (s.step W line).2 = r.2.deferred ++ r.2.chan.map (fun l => l.trimAscii.toString) ∧
    ∃ before : Array String, r.2.out = before.push s!"bestmove {r.1.bestMove.toUci}" := by
  intro r
  unfold Session.step
  rw [if_neg (by simpa using hne)]
  simp only [h, hp]
  simp only [Session.print, ho, Bool.false_eq_true, ↓reduceIte]
  refine ⟨?_, ?_, ?_, ?_, ?_, ?_, go_answered chessRules _ s.game d s.tt s.rep⟩ <;> first | rfl | trivial

/-- **T18.2 at the command loop** `ucinewgame`: the table is emptied, the history array reset, the position kept -/
theorem session_newgame (W : Nat → Cfg) (s : Session) (line : String) (hne : line ≠ "") (h : Env.firstWordLower line = "ucinewgame") :
    s.step W line = ({ s with rep := s.rep.clear, tt := s.tt.clear }, []) := by
  unfold Session.step
  rw [if_neg (by simpa using hne)]
  simp only [h]

/-- `position …`: the history array is reset and refilled by `parse_position`; a malformed command ends the process -/
theorem session_position (W : Nat → Cfg) (s : Session) (line : String) (hne : line ≠ "") (h : Env.firstWordLower line = "position")
    (hmore : (line.splitOn " ").length ≥ 2) :
    s.step W line = (match parsePosition (String.ofList (line.toList.drop 9)) s.rep.clear with
      | .ok (g, rep) => ({ s with game := g, rep := rep }, [])
      | _ => (s.die, [])) := by
  unfold Session.step
  rw [if_neg (by simpa using hne)]
  simp only [h]
  rw [if_neg (by simpa using hmore)]
  cases parsePosition (String.ofList (line.toList.drop 9)) s.rep.clear with
  | ok a => rfl
  | none => rfl
  | panic => rfl

/-- **T18.2 at the command loop.** Two sessions - one that has lived (any table `t`, any history array `r` that has not
    overflowed, any output so far, any number of earlier searches) and has just executed `ucinewgame`, one freshly started -
    are given the same `position` arguments and then the same `go` line. Both parse to the same game or fail alike
    (`C18.newgame_then_position_like_fresh`); and the `go` prints the same lines in both, for every input schedule `cfg0`
    of that search (hook trace off) and every form of `go`. -/
theorem newgame_position_go_like_fresh (cfg0 : Cfg) (h0 : cfg0.trace = 0) (A B : Session) (args : String) (r : RepTable) (t : TT)
    (ho : r.overflow = false) (hsz : r.table.size = Gen.REP_CAPACITY)
    (g g' : Game) (ra rb : RepTable)
    (hposA : parsePosition args r.clear = .ok (g, ra)) (hposB : parsePosition args RepTable.new = .ok (g', rb))
    (hA : A.game = g ∧ A.tt = t.clear ∧ A.rep = ra) (hB : B.game = g' ∧ B.tt = TT.new t.size ∧ B.rep = rb)
    (line : String) (hgo : Env.firstWordLower line = "go") :
    g = g' ∧ ∃ X : List String, (A.step (fun _ => cfg0) line).1.out = A.out ++ X.toArray ∧ (B.step (fun _ => cfg0) line).1.out = B.out ++ X.toArray := by
  have hp := parsePosition_ext args r.clear RepTable.new (clear_like_new r ho hsz)
  rw [hposA, hposB] at hp
  obtain ⟨hg, hr⟩ := hp
  subst hg
  refine ⟨rfl, ?_⟩
  by_cases hne : line = ""
  · refine ⟨[], ?_⟩
    unfold Session.step
    rw [if_pos (by simpa using hne), if_pos (by simpa using hne)]
    exact ⟨by simp, by simp⟩
  · obtain ⟨hA1, hA2, hA3⟩ := hA
    obtain ⟨hB1, hB2, hB3⟩ := hB
    unfold Session.step
    rw [if_neg (by simpa using hne), if_neg (by simpa using hne)]
    simp only [hgo, hA1, hB1]
    generalize parseGo g.white (String.ofList (line.toList.drop 2)) = pg
    obtain ⟨msgs, res⟩ := pg
    cases res with
    | panic => exact ⟨msgs, rfl, rfl⟩
    | nosearch => exact ⟨msgs, rfl, rfl⟩
    | search d tm =>
      simp only [hA1, hB1, hA2, hA3, hB2, hB3, Session.print]
      have hs := C18.search_reads_recorded_history_only chessRules { cfg0 with maxTime := tm } h0 g d t.clear ra rb hr
      obtain ⟨_, hout, _, hrep⟩ := hs
      have hov := hrep.2.2.1
      have htt : TT.new t.size = t.clear := rfl
      rw [htt]
      by_cases hover : (search chessRules { cfg0 with maxTime := tm } g d t.clear ra).2.rep.overflow = true
      · rw [if_pos hover, if_pos (by rw [← hov]; exact hover)]
        exact ⟨msgs, rfl, rfl⟩
      · rw [if_neg hover, if_neg (by rw [← hov]; exact hover)]
        refine ⟨msgs ++ (search chessRules { cfg0 with maxTime := tm } g d t.clear ra).2.out.toList, ?_, ?_⟩
        · simp only [Array.append_assoc]; congr 1; apply Array.toList_inj.1; simp
        · simp only []
          rw [hout]; simp only [Array.append_assoc]; congr 1; apply Array.toList_inj.1; simp

end Jence.Props.C13
