/-
  C15 — attack tables are exact for every square and every occupancy.

  Model: `build.rs` (`rook_attacks_on_the_fly`, `bishop_attacks_on_the_fly`, masks, offsets, leaper tables) and the
  getters of `src/attack_tables.rs`. Specification: coordinate walks / coordinate patterns of `Spec.Rules`.
-/
import Jence.Lemmas.Attack
import Jence.Lemmas.TableLift
import Jence.Lemmas.AttackSym
namespace Jence.Props.C15
open Jence

/-- **T15.3** For every square and *every* set of occupied squares (all 2^64, relevant or not), the attack sets the table
    generator computes by bit shifts are the squares reached by sliding along the rook's / bishop's lines up to and
    including the first occupied square. (Simulation proof over the four rays; single-bit shift facts kernel-decided over
    their 64 x 64 domain.) -/
theorem onTheFly_rook (sq : Nat) (hsq : sq < 64) (occ : UInt64) : rookAttacksOnTheFly sq occ = Spec.slideRook sq occ :=
  rookOnTheFly_eq_slide sq hsq occ

theorem onTheFly_bishop (sq : Nat) (hsq : sq < 64) (occ : UInt64) : bishopAttacksOnTheFly sq occ = Spec.slideBishop sq occ :=
  bishopOnTheFly_eq_slide sq hsq occ

set_option maxRecDepth 100000 in
/-- **T15.6** the knight table equals the rules' jump pattern on all 64 squares -/
theorem leapers_knight : ∀ sq, sq < 64 → getKnightAttacks sq = Spec.knightPattern sq := by decide +kernel

set_option maxRecDepth 100000 in
/-- the king table equals the rules' step pattern on all 64 squares -/
theorem leapers_king : ∀ sq, sq < 64 → getKingAttacks sq = Spec.kingPattern sq := by decide +kernel

set_option maxRecDepth 100000 in
/-- both pawn tables equal the rules' capture pattern on all 64 squares (including the rows where no pawn can stand,
    which `is_square_attacked` consults in the reverse direction) -/
theorem leapers_pawn : ∀ sq, sq < 64 → (getPawnAttacks sq true = Spec.pawnPattern true sq ∧ getPawnAttacks sq false = Spec.pawnPattern false sq) := by
  decide +kernel

/-- **T15.4** table layout: the rook blocks start at the prefix sums of `2^popcount(mask)`, the bishop blocks follow, and
    the total is the size of the table (107 648 for the masks in the source) -/
theorem table_layout :
    ROOK_OFFSETS.getD 0 0 = 0 ∧
    (∀ sq, sq < 63 → ROOK_OFFSETS.getD (sq + 1) 0 = ROOK_OFFSETS.getD sq 0 + 2 ^ popCount (ROOK_MASK.getD sq 0)) ∧
    BISHOP_OFFSETS.getD 0 0 = ROOK_OFFSETS.getD 63 0 + 2 ^ popCount (ROOK_MASK.getD 63 0) ∧
    (∀ sq, sq < 63 → BISHOP_OFFSETS.getD (sq + 1) 0 = BISHOP_OFFSETS.getD sq 0 + 2 ^ popCount (BISHOP_MASK.getD sq 0)) ∧
    BISHOP_OFFSETS.getD 63 0 + 2 ^ popCount (BISHOP_MASK.getD 63 0) = 107648 := table_layout_fact

/-- **T15.1** The PEXT-indexed lookup `SLIDING_ATTACKS[ROOK_OFFSETS[sq] + pext(occ, ROOK_MASK[sq])]` returns, for every
    square and **every** 64-bit occupancy (relevant bits or not), exactly the squares a rook reaches by sliding up to and
    including the first occupied square. Proof: the block of `sq` starts at the prefix sum of the earlier block sizes
    (`table_layout`), entry `i` of it is the ray loop on `pdep i mask`, `pdep (pext occ mask) mask = occ &&& mask`
    (`pdep_pext`), and the ray loop does not look at the last square of a ray (`rook_mask_irrelevant`). -/
theorem lookup_rook (sq : Nat) (hsq : sq < 64) (occ : UInt64) : getRookAttacks sq occ = Spec.slideRook sq occ := by
  rw [getRookAttacks_eq sq hsq occ]; exact rookOnTheFly_eq_slide sq hsq occ

/-- **T15.2** the same for bishops -/
theorem lookup_bishop (sq : Nat) (hsq : sq < 64) (occ : UInt64) : getBishopAttacks sq occ = Spec.slideBishop sq occ := by
  rw [getBishopAttacks_eq sq hsq occ]; exact bishopOnTheFly_eq_slide sq hsq occ

/-- ... and queens -/
theorem lookup_queen (sq : Nat) (hsq : sq < 64) (occ : UInt64) :
    getQueenAttacks sq occ = Spec.slideRook sq occ ||| Spec.slideBishop sq occ := by
  unfold getQueenAttacks; rw [lookup_rook sq hsq, lookup_bishop sq hsq]

/-- the lookups are symmetric: `t` is attacked from `s` iff `s` is attacked from `t`, for the same occupancy (what the
    reverse lookup of `is_square_attacked` relies on); the pawn tables mirror each other -/
theorem lookup_symmetric (s t : Nat) (hs : s < 64) (ht : t < 64) (occ : UInt64) :
    (getBit (getRookAttacks s occ) t = true → getBit (getRookAttacks t occ) s = true) ∧
    (getBit (getBishopAttacks s occ) t = true → getBit (getBishopAttacks t occ) s = true) ∧
    (getBit (getQueenAttacks s occ) t = true → getBit (getQueenAttacks t occ) s = true) ∧
    getBit (getKnightAttacks s) t = getBit (getKnightAttacks t) s ∧
    getBit (getKingAttacks s) t = getBit (getKingAttacks t) s ∧
    getBit (getPawnAttacks s true) t = getBit (getPawnAttacks t false) s :=
  ⟨rookAttacks_symm s t hs ht occ, bishopAttacks_symm s t hs ht occ, queenAttacks_symm s t hs ht occ,
   (leapers_symm s hs t ht).1, (leapers_symm s hs t ht).2.1, (leapers_symm s hs t ht).2.2⟩

/-- **T15.5** PDEP after PEXT with the same mask keeps exactly the masked bits (the index round trip of the table) -/
theorem pdep_after_pext (x m : UInt64) : pdep (pext x m) m = x &&& m := pdep_pext x m

/-- the index stays inside the block -/
theorem pext_in_block (x m : UInt64) : (pext x m).toNat < 2 ^ popCount m := pext_lt x m

/-- the queen getter is the union of the rook and bishop getters -/
theorem queen_is_union (sq : Nat) (occ : UInt64) : getQueenAttacks sq occ = getRookAttacks sq occ ||| getBishopAttacks sq occ := rfl

end Jence.Props.C15
