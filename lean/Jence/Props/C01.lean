/-
  C01 — legal move generation (first part: the capture-only generator is the full generator restricted to captures).

  Model: `generateMoves` (`generate_moves` in `src/move_generator.rs`), both modes.
-/
import Jence.Model.MoveGen
import Jence.Lemmas.ListExtra
import Jence.Lemmas.Legality
import Jence.Lemmas.BitScan
namespace Jence.Props.C01
open Jence

theorem bitsOfAux_lt (fuel : Nat) (b : UInt64) (acc : List Nat) (h : ∀ s ∈ acc, s < 64) :
    ∀ s ∈ bitsOfAux fuel b acc, s < 64 := by
  induction fuel generalizing b acc with
  | zero => simpa [bitsOfAux] using h
  | succ n ih =>
    simp only [bitsOfAux]
    split
    · simpa using h
    · rename_i hb
      apply ih
      intro s hs
      rcases List.mem_cons.mp hs with rfl | hs
      · exact Jence.tzcnt_lt b (by simpa using hb)
      · exact h s hs

/-- the squares a bit-set loop visits are squares -/
theorem bitsOf_lt (b : UInt64) : ∀ s ∈ bitsOf b, s < 64 := bitsOfAux_lt 64 b [] (by simp)

theorem bitsOf_le (b : UInt64) : ∀ s ∈ bitsOf b, s ≤ 64 := fun s hs => Nat.le_of_lt (bitsOf_lt b s hs)

private def b2n (b : Bool) : Nat := if b then 1 else 0
private theorem flag_eq (K : Nat) (b : Bool) : (if b then K else 0) = K * b2n b := by cases b <;> simp [b2n]
private theorem b2n_le (b : Bool) : b2n b ≤ 1 := by cases b <;> simp [b2n]
private theorem beq_one_iff (n : Nat) (b : Bool) (h : n = b2n b) : (n == 1) = b := by
  cases b <;> simp [b2n] at h <;> simp [h]

/-- the capture flag survives the packing for every square a generated move can carry (`to` may be a wrapped `u8`) -/
theorem isCapture_mk (f t p pr : Nat) (cap dbl ep cas : Bool) (hf : f ≤ 64) (ht : t ≤ 255) (hp : p ≤ 12) (hpr : pr ≤ 12) :
    (Move.mk' f t p pr cap dbl ep cas).isCapture = cap := by
  simp only [Move.mk', Move.isCapture, flag_eq]
  have h1 := b2n_le cap; have h2 := b2n_le dbl; have h3 := b2n_le ep; have h4 := b2n_le cas
  exact beq_one_iff _ _ (by omega)

theorem u8sub8_le (s : Nat) : u8sub8 s ≤ 255 := by unfold u8sub8; omega
theorem u8add8_le (s : Nat) : u8add8 s ≤ 255 := by unfold u8add8; omega

theorem promos_le (w : Bool) : ∀ p ∈ promos w, p ≤ 12 := by
  cases w <;> simp [promos] <;> decide

theorem filter_all_false {α : Type} (p : α → Bool) (l : List α) (h : ∀ a ∈ l, p a = false) : l.filter p = [] := by
  rw [List.filter_eq_nil_iff]; intro a ha; simp [h a ha]

theorem filter_all_true {α : Type} (p : α → Bool) (l : List α) (h : ∀ a ∈ l, p a = true) : l.filter p = l :=
  List.filter_eq_self.mpr h

theorem pawn_piece_le (w : Bool) : (if w then WP else BP) ≤ 12 := by cases w <;> decide

theorem pawnQuiet_quiet (g : Game) (f : Nat) (hf : f ≤ 64) : ∀ m ∈ pawnQuiet g f, m.isCapture = false := by
  intro m hm
  unfold pawnQuiet at hm
  cases hw : g.white
  all_goals
    simp only [hw, Bool.false_eq_true, ↓reduceIte] at hm
    have key : ∀ t pw pr, t ≤ 255 → pw ≤ 12 → pr ≤ 12 → ∀ d, (Move.mk' f t pw pr false d false false).isCapture = false :=
      fun t pw pr ht hpw hpr d => isCapture_mk _ _ _ _ _ _ _ _ hf ht hpw hpr
    split at hm
    · split at hm
      · rcases List.mem_cons.mp hm with rfl | hm
        · exact key _ _ _ (by first | exact u8sub8_le _ | exact u8add8_le _) (by decide) (by decide) _
        · split at hm
          · rcases List.mem_singleton.mp hm with rfl
            exact key _ _ _ (by first | exact u8sub8_le _ | exact u8add8_le _) (by decide) (by decide) _
          · exact absurd hm (List.not_mem_nil)
      · obtain ⟨p, hp, rfl⟩ := List.mem_map.mp hm
        exact key _ _ _ (by first | exact u8sub8_le _ | exact u8add8_le _) (by decide) (promos_le _ p hp) _
    · exact absurd hm (List.not_mem_nil)

theorem pawnEp_capture (g : Game) (f : Nat) (hf : f ≤ 64) (hep : g.ep ≤ 64) : ∀ m ∈ pawnEp g f, m.isCapture = true := by
  intro m hm
  unfold pawnEp at hm
  simp only at hm
  split at hm
  · rcases List.mem_singleton.mp hm with rfl
    exact isCapture_mk _ _ _ _ _ _ _ _ hf (by omega) (pawn_piece_le _) (by decide)
  · exact absurd hm (List.not_mem_nil)

theorem pawnCaps_capture (g : Game) (f : Nat) (hf : f ≤ 64) : ∀ m ∈ pawnCaps g f, m.isCapture = true := by
  intro m hm
  unfold pawnCaps at hm
  simp only [List.mem_flatMap] at hm
  obtain ⟨t, ht, hm⟩ := hm
  have ht64 : t ≤ 64 := bitsOf_le _ t ht
  cases hw : g.white
  all_goals
    simp only [hw, Bool.false_eq_true, ↓reduceIte] at hm
    split at hm
    · rcases List.mem_singleton.mp hm with rfl
      exact isCapture_mk _ _ _ _ _ _ _ _ hf (by omega) (by decide) (by decide)
    · obtain ⟨p, hp, rfl⟩ := List.mem_map.mp hm
      exact isCapture_mk _ _ _ _ _ _ _ _ hf (by omega) (by decide) (promos_le _ p hp)

/-- one pawn: the capture-mode list is the all-mode list restricted to captures -/
theorem pawnMoves_filter (g : Game) (f : Nat) (hf : f ≤ 64) (hep : g.ep ≤ 64) :
    pawnMoves g false f = (pawnMoves g true f).filter Move.isCapture := by
  unfold pawnMoves
  simp only [Bool.false_eq_true, ↓reduceIte, List.nil_append, List.filter_append]
  rw [filter_all_false _ _ (pawnQuiet_quiet g f hf), filter_all_true _ _ (pawnEp_capture g f hf hep),
    filter_all_true _ _ (pawnCaps_capture g f hf)]
  simp

theorem castling_filter (g : Game) : castlingMoves g false = (castlingMoves g true).filter Move.isCapture := by
  unfold castlingMoves
  simp only [Bool.not_false, ↓reduceIte, Bool.not_true, Bool.false_eq_true]
  symm
  apply filter_all_false
  intro m hm
  split at hm
  all_goals
    simp only [List.mem_append] at hm
    rcases hm with hm | hm <;> (split at hm <;> first | (simp only [List.mem_singleton] at hm; subst hm; decide) | simp at hm)

theorem pieceMoves_filter (g : Game) (piece : Nat) (hp : piece ≤ 12) (att : Nat → UInt64) :
    pieceMoves g false piece att = (pieceMoves g true piece att).filter Move.isCapture := by
  unfold pieceMoves
  simp only [Bool.false_eq_true, ↓reduceIte, List.nil_append, List.filter_flatMap]
  apply List.flatMap_congr'
  intro f hf
  have hf64 : f ≤ 64 := bitsOf_le _ f hf
  simp only [List.filter_append]
  rw [filter_all_false, filter_all_true]
  · simp
  · intro m hm
    simp only [List.mem_map] at hm
    obtain ⟨t, ht, rfl⟩ := hm
    exact isCapture_mk _ _ _ _ _ _ _ _ hf64 (by have := bitsOf_le _ t ht; omega) hp (by decide)
  · intro m hm
    simp only [List.mem_map] at hm
    obtain ⟨t, ht, rfl⟩ := hm
    exact isCapture_mk _ _ _ _ _ _ _ _ hf64 (by have := bitsOf_le _ t ht; omega) hp (by decide)

/-- **T1.1** For every position whatsoever (legal or not; the only assumption is that the en-passant field holds a square
    number or "none", which the Rust type guarantees) the capture-only generator used at the search horizon produces
    exactly the moves of the full generator that carry the capture flag, in the same order: en-passant captures and
    capturing promotions included, castling and quiet promotions excluded. -/
theorem gen_quiescence_eq_filter (g : Game) (hep : g.ep ≤ 64) :
    generateMoves g false = (generateMoves g true).filter Move.isCapture := by
  unfold generateMoves
  simp only [List.filter_append, List.filter_flatMap]
  rw [← castling_filter, ← pieceMoves_filter g _ (by split <;> decide), ← pieceMoves_filter g _ (by split <;> decide),
    ← pieceMoves_filter g _ (by split <;> decide), ← pieceMoves_filter g _ (by split <;> decide), ← pieceMoves_filter g _ (by split <;> decide)]
  have hpawn : (bitsOf (g.bb (WP + if g.white then 0 else 6))).flatMap (pawnMoves g false) =
      (bitsOf (g.bb (WP + if g.white then 0 else 6))).flatMap (fun a => (pawnMoves g true a).filter Move.isCapture) :=
    List.flatMap_congr' (fun f hf => pawnMoves_filter g f (bitsOf_le _ f hf) hep)
  rw [hpawn]

/-! ### T1.2 — the two legality routes are one predicate on generated moves -/

/-- what every generated move looks like: packed from in-range fields, and flagged en passant only if flagged capture -/
def GenShape (m : Move) : Prop :=
  ∃ f t p pr c d e k, m = Move.mk' f t p pr c d e k ∧ f < 64 ∧ t ≤ 255 ∧ p ≤ 12 ∧ pr ≤ 12 ∧ (e = true → c = true) ∧
    (d = true → t + 8 ≤ 64)

theorem isEnpassant_mk (f t p pr : Nat) (cap dbl ep cas : Bool) (hf : f ≤ 64) (ht : t ≤ 255) (hp : p ≤ 12) (hpr : pr ≤ 12) :
    (Move.mk' f t p pr cap dbl ep cas).isEnpassant = ep := by
  simp only [Move.mk', Move.isEnpassant, flag_eq]
  have h1 := b2n_le cap; have h2 := b2n_le dbl; have h3 := b2n_le ep; have h4 := b2n_le cas
  exact beq_one_iff _ _ (by omega)

theorem GenShape.ep_imp_cap {m : Move} (h : GenShape m) : m.isEnpassant = true → m.isCapture = true := by
  obtain ⟨f, t, p, pr, c, d, e, k, rfl, hf, ht, hp, hpr, hec, _⟩ := h
  rw [isEnpassant_mk _ _ _ _ _ _ _ _ (by omega) ht hp hpr, isCapture_mk _ _ _ _ _ _ _ _ (by omega) ht hp hpr]
  exact hec

theorem shape_mk (f t p pr : Nat) (c d e k : Bool) (hf : f < 64) (ht : t ≤ 255) (hp : p ≤ 12) (hpr : pr ≤ 12)
    (hec : e = true → c = true) (hd : d = true → t + 8 ≤ 64 := by simp) : GenShape (Move.mk' f t p pr c d e k) :=
  ⟨f, t, p, pr, c, d, e, k, rfl, hf, ht, hp, hpr, hec, hd⟩

theorem pawnQuiet_shape (g : Game) (f : Nat) (hf : f < 64) : ∀ m ∈ pawnQuiet g f, GenShape m := by
  intro m hm
  unfold pawnQuiet at hm
  cases hw : g.white
  all_goals
    simp only [hw, Bool.false_eq_true, ↓reduceIte] at hm
    split at hm
    · split at hm
      · rcases List.mem_cons.mp hm with rfl | hm
        · exact shape_mk _ _ _ _ _ _ _ _ hf (by first | exact u8sub8_le _ | exact u8add8_le _) (by decide) (by decide) (by simp)
        · split at hm
          · rename_i hd
            rcases List.mem_singleton.mp hm with rfl
            have hrow : f / 8 = 6 ∨ f / 8 = 1 := by
              simp only [Bool.and_eq_true, beq_iff_eq] at hd
              first | exact Or.inl hd.2 | exact Or.inr hd.2
            refine shape_mk _ _ _ _ _ _ _ _ hf (by first | exact u8sub8_le _ | exact u8add8_le _) (by decide) (by decide) (by simp) ?_
            intro _
            simp only [Bool.and_eq_true, beq_iff_eq] at hd
            have := hd.2
            simp only [u8sub8, u8add8]
            omega
          · exact absurd hm (List.not_mem_nil)
      · obtain ⟨p, hp, rfl⟩ := List.mem_map.mp hm
        exact shape_mk _ _ _ _ _ _ _ _ hf (by first | exact u8sub8_le _ | exact u8add8_le _) (by decide) (promos_le _ p hp) (by simp)
    · exact absurd hm (List.not_mem_nil)

theorem pawnEp_shape (g : Game) (f : Nat) (hf : f < 64) (hep : g.ep ≤ 64) : ∀ m ∈ pawnEp g f, GenShape m := by
  intro m hm
  unfold pawnEp at hm
  simp only at hm
  split at hm
  · rcases List.mem_singleton.mp hm with rfl
    exact shape_mk _ _ _ _ _ _ _ _ hf (by omega) (pawn_piece_le _) (by decide) (by simp)
  · exact absurd hm (List.not_mem_nil)

theorem pawnCaps_shape (g : Game) (f : Nat) (hf : f < 64) : ∀ m ∈ pawnCaps g f, GenShape m := by
  intro m hm
  unfold pawnCaps at hm
  simp only [List.mem_flatMap] at hm
  obtain ⟨t, ht, hm⟩ := hm
  have ht64 : t ≤ 64 := bitsOf_le _ t ht
  cases hw : g.white
  all_goals
    simp only [hw, Bool.false_eq_true, ↓reduceIte] at hm
    split at hm
    · rcases List.mem_singleton.mp hm with rfl
      exact shape_mk _ _ _ _ _ _ _ _ hf (by omega) (by decide) (by decide) (by simp)
    · obtain ⟨p, hp, rfl⟩ := List.mem_map.mp hm
      exact shape_mk _ _ _ _ _ _ _ _ hf (by omega) (by decide) (promos_le _ p hp) (by simp)

theorem castling_shape (g : Game) (all : Bool) : ∀ m ∈ castlingMoves g all, GenShape m := by
  intro m hm
  unfold castlingMoves at hm
  split at hm
  · exact absurd hm (List.not_mem_nil)
  · split at hm
    all_goals
      simp only [List.mem_append] at hm
      rcases hm with hm | hm <;>
        (split at hm <;> first
          | (rcases List.mem_singleton.mp hm with rfl
             exact shape_mk _ _ _ _ _ _ _ _ (by decide) (by decide) (by decide) (by decide) (by simp))
          | exact absurd hm (List.not_mem_nil))

theorem pieceMoves_shape (g : Game) (all : Bool) (piece : Nat) (hp : piece ≤ 12) (att : Nat → UInt64) :
    ∀ m ∈ pieceMoves g all piece att, GenShape m := by
  intro m hm
  unfold pieceMoves at hm
  simp only [List.mem_flatMap, List.mem_append] at hm
  obtain ⟨f, hf, hm⟩ := hm
  have hf64 : f < 64 := bitsOf_lt _ f hf
  rcases hm with hm | hm
  · split at hm
    · obtain ⟨t, ht, rfl⟩ := List.mem_map.mp hm
      exact shape_mk _ _ _ _ _ _ _ _ hf64 (by have := bitsOf_le _ t ht; omega) hp (by decide) (by simp)
    · exact absurd hm (List.not_mem_nil)
  · obtain ⟨t, ht, rfl⟩ := List.mem_map.mp hm
    exact shape_mk _ _ _ _ _ _ _ _ hf64 (by have := bitsOf_le _ t ht; omega) hp (by decide) (by simp)

/-- every generated move (either mode) has the generated shape -/
theorem generated_shape (g : Game) (all : Bool) (hep : g.ep ≤ 64) : ∀ m ∈ generateMoves g all, GenShape m := by
  intro m hm
  unfold generateMoves at hm
  simp only [List.mem_append, List.mem_flatMap] at hm
  have hpc : ∀ k, k ≤ 5 → k + (if g.white then 0 else 6) ≤ 12 := fun k hk => by split <;> omega
  rcases hm with ((((((⟨f, hf, hm⟩ | hm) | hm) | hm) | hm) | hm) | hm)
  · have hf64 := bitsOf_lt _ f hf
    unfold pawnMoves at hm
    simp only [List.mem_append] at hm
    rcases hm with (hm | hm) | hm
    · split at hm
      · exact pawnQuiet_shape g f hf64 m hm
      · exact absurd hm (List.not_mem_nil)
    · exact pawnEp_shape g f hf64 hep m hm
    · exact pawnCaps_shape g f hf64 m hm
  · exact castling_shape g all m hm
  · exact pieceMoves_shape g all _ (hpc 1 (by omega)) _ m hm
  · exact pieceMoves_shape g all _ (hpc 2 (by omega)) _ m hm
  · exact pieceMoves_shape g all _ (hpc 3 (by omega)) _ m hm
  · exact pieceMoves_shape g all _ (hpc 4 (by omega)) _ m hm
  · exact pieceMoves_shape g all _ (hpc 5 (by omega)) _ m hm

/-- **T1.2** For every position (legal or not) and every generated move, in either mode: the legality test the move
    filter uses and the rejection inside `make` are the same predicate, so the set of moves the engine treats as legal is
    the same whether it filters its generated moves or tries to make them. -/
theorem legality_paths_agree (g : Game) (hep : g.ep ≤ 64) (all : Bool) (m : Move) (hm : m ∈ generateMoves g all) :
    isLegal g m = (makeCore g m).isSome :=
  Jence.legality_paths_agree g m (generated_shape g all hep m hm).ep_imp_cap

/-- the legal list is the generated list restricted to the moves `make` accepts -/
theorem legalValues_eq_made (g : Game) (hep : g.ep ≤ 64) :
    legalValues g = (generateMoves g true).filter (fun m => (makeCore g m).isSome) := by
  unfold legalValues
  apply List.filter_congr
  intro m hm
  exact legality_paths_agree g hep true m hm

/-- every move of the legal list can be made (discharges the hypothesis of `Props/C05.position_history`) -/
theorem legal_moves_can_be_made (g : Game) (hep : g.ep ≤ 64) (m : Move) (hm : m ∈ legalValues g) : (makeCore g m).isSome := by
  rw [legalValues_eq_made g hep] at hm
  simpa using (List.mem_filter.mp hm).2

/-! ### the en-passant field stays a square number -/

theorem isDoublePush_mk (f t p pr : Nat) (cap dbl ep cas : Bool) (hf : f ≤ 64) (ht : t ≤ 255) (hp : p ≤ 12) (hpr : pr ≤ 12) :
    (Move.mk' f t p pr cap dbl ep cas).isDoublePush = dbl := by
  simp only [Move.mk', Move.isDoublePush, flag_eq]
  have h1 := b2n_le cap; have h2 := b2n_le dbl; have h3 := b2n_le ep; have h4 := b2n_le cas
  exact beq_one_iff _ _ (by omega)

theorem toSq_mk (f t p pr : Nat) (cap dbl ep cas : Bool) (hf : f < 64) (ht : t < 64) :
    (Move.mk' f t p pr cap dbl ep cas).toSq = t := by
  simp only [Move.mk', Move.toSq, flag_eq]
  omega

theorem postSide_ep (g : Game) : (postSide g).ep = g.ep := by
  unfold postSide; simp only; split <;> rfl

theorem makePost_ep (g : Game) (m : Move) (h : GenShape m) : (makePost g m).ep ≤ 64 := by
  obtain ⟨f, t, p, pr, c, d, e, k, rfl, hf, ht, hp, hpr, _, hd⟩ := h
  unfold makePost
  rw [postSide_ep]
  unfold postRights
  simp only
  unfold postEp
  rw [isDoublePush_mk _ _ _ _ _ _ _ _ (Nat.le_of_lt hf) ht hp hpr]
  cases d with
  | false => simp
  | true =>
    have ht8 := hd rfl
    simp only [↓reduceIte, toSq_mk _ _ _ _ _ _ _ _ hf (by omega : t < 64)]
    split <;> simp <;> omega

/-- making a generated move leaves the en-passant field a square number or "none" -/
theorem makeCore_ep (g g' : Game) (m : Move) (hs : GenShape m) (h : makeCore g m = some g') : g'.ep ≤ 64 := by
  unfold makeCore at h
  simp only at h
  split at h
  · simp at h
  · simp only [Option.some.injEq] at h; rw [← h]; exact makePost_ep _ m hs

end Jence.Props.C01
