/-
  C01 — legal move generation (first part: the capture-only generator is the full generator restricted to captures).

  Model: `generateMoves` (`generate_moves` in `src/move_generator.rs`), both modes.
-/
import Jence.Model.MoveGen
import Jence.Lemmas.ListExtra
namespace Jence.Props.C01
open Jence

theorem tzcnt_le (b : UInt64) : tzcnt b ≤ 64 := by
  unfold tzcnt
  split
  · omega
  · simp only
    repeat' split
    all_goals omega

theorem bitsOfAux_le (fuel : Nat) (b : UInt64) (acc : List Nat) (h : ∀ s ∈ acc, s ≤ 64) :
    ∀ s ∈ bitsOfAux fuel b acc, s ≤ 64 := by
  induction fuel generalizing b acc with
  | zero => simpa [bitsOfAux] using h
  | succ n ih =>
    simp only [bitsOfAux]
    split
    · simpa using h
    · apply ih
      intro s hs
      rcases List.mem_cons.mp hs with rfl | hs
      · exact tzcnt_le b
      · exact h s hs

theorem bitsOf_le (b : UInt64) : ∀ s ∈ bitsOf b, s ≤ 64 := bitsOfAux_le 64 b [] (by simp)

private def b2n (b : Bool) : Nat := if b then 1 else 0
private theorem flag_eq (K : Nat) (b : Bool) : (if b then K else 0) = K * b2n b := by cases b <;> simp [b2n]
private theorem b2n_le (b : Bool) : b2n b ≤ 1 := by cases b <;> simp [b2n]
private theorem beq_one_iff (n : Nat) (b : Bool) (h : n = b2n b) : (n == 1) = b := by
  cases b <;> simp [b2n] at h <;> simp [h]

/-- the capture flag survives the packing for every square a generated move can carry (`to` may be a wrapped `u8`) -/
theorem isCapture_mk (f t p pr : Nat) (cap dbl ep cas : Bool) (hf : f ≤ 64) (ht : t ≤ 255) (hp : p ≤ 12) (hpr : pr ≤ 12) :
    (Move.mk' f t p pr cap dbl ep cas).isCapture = cap := by
  simp only [Move.mk', Move.isCapture, flag_eq]
  have h1 := b2n_le cap; have h2 := b2n_le dbl; have h3 := b2n_le ep; have h4 := b2n_le cas
  exact beq_one_iff _ _ (by omega)

theorem u8sub8_le (s : Nat) : u8sub8 s ≤ 255 := by unfold u8sub8; omega
theorem u8add8_le (s : Nat) : u8add8 s ≤ 255 := by unfold u8add8; omega

theorem promos_le (w : Bool) : ∀ p ∈ promos w, p ≤ 12 := by
  cases w <;> simp [promos] <;> decide

theorem filter_all_false {α : Type} (p : α → Bool) (l : List α) (h : ∀ a ∈ l, p a = false) : l.filter p = [] := by
  rw [List.filter_eq_nil_iff]; intro a ha; simp [h a ha]

theorem filter_all_true {α : Type} (p : α → Bool) (l : List α) (h : ∀ a ∈ l, p a = true) : l.filter p = l :=
  List.filter_eq_self.mpr h

theorem pawn_piece_le (w : Bool) : (if w then WP else BP) ≤ 12 := by cases w <;> decide

theorem pawnQuiet_quiet (g : Game) (f : Nat) (hf : f ≤ 64) : ∀ m ∈ pawnQuiet g f, m.isCapture = false := by
  intro m hm
  unfold pawnQuiet at hm
  cases hw : g.white
  all_goals
    simp only [hw, Bool.false_eq_true, ↓reduceIte] at hm
    have key : ∀ t pw pr, t ≤ 255 → pw ≤ 12 → pr ≤ 12 → ∀ d, (Move.mk' f t pw pr false d false false).isCapture = false :=
      fun t pw pr ht hpw hpr d => isCapture_mk _ _ _ _ _ _ _ _ hf ht hpw hpr
    split at hm
    · split at hm
      · rcases List.mem_cons.mp hm with rfl | hm
        · exact key _ _ _ (by first | exact u8sub8_le _ | exact u8add8_le _) (by decide) (by decide) _
        · split at hm
          · rcases List.mem_singleton.mp hm with rfl
            exact key _ _ _ (by first | exact u8sub8_le _ | exact u8add8_le _) (by decide) (by decide) _
          · exact absurd hm (List.not_mem_nil)
      · obtain ⟨p, hp, rfl⟩ := List.mem_map.mp hm
        exact key _ _ _ (by first | exact u8sub8_le _ | exact u8add8_le _) (by decide) (promos_le _ p hp) _
    · exact absurd hm (List.not_mem_nil)

theorem pawnEp_capture (g : Game) (f : Nat) (hf : f ≤ 64) (hep : g.ep ≤ 64) : ∀ m ∈ pawnEp g f, m.isCapture = true := by
  intro m hm
  unfold pawnEp at hm
  simp only at hm
  split at hm
  · rcases List.mem_singleton.mp hm with rfl
    exact isCapture_mk _ _ _ _ _ _ _ _ hf (by omega) (pawn_piece_le _) (by decide)
  · exact absurd hm (List.not_mem_nil)

theorem pawnCaps_capture (g : Game) (f : Nat) (hf : f ≤ 64) : ∀ m ∈ pawnCaps g f, m.isCapture = true := by
  intro m hm
  unfold pawnCaps at hm
  simp only [List.mem_flatMap] at hm
  obtain ⟨t, ht, hm⟩ := hm
  have ht64 : t ≤ 64 := bitsOf_le _ t ht
  cases hw : g.white
  all_goals
    simp only [hw, Bool.false_eq_true, ↓reduceIte] at hm
    split at hm
    · rcases List.mem_singleton.mp hm with rfl
      exact isCapture_mk _ _ _ _ _ _ _ _ hf (by omega) (by decide) (by decide)
    · obtain ⟨p, hp, rfl⟩ := List.mem_map.mp hm
      exact isCapture_mk _ _ _ _ _ _ _ _ hf (by omega) (by decide) (promos_le _ p hp)

/-- one pawn: the capture-mode list is the all-mode list restricted to captures -/
theorem pawnMoves_filter (g : Game) (f : Nat) (hf : f ≤ 64) (hep : g.ep ≤ 64) :
    pawnMoves g false f = (pawnMoves g true f).filter Move.isCapture := by
  unfold pawnMoves
  simp only [Bool.false_eq_true, ↓reduceIte, List.nil_append, List.filter_append]
  rw [filter_all_false _ _ (pawnQuiet_quiet g f hf), filter_all_true _ _ (pawnEp_capture g f hf hep),
    filter_all_true _ _ (pawnCaps_capture g f hf)]
  simp

theorem castling_filter (g : Game) : castlingMoves g false = (castlingMoves g true).filter Move.isCapture := by
  unfold castlingMoves
  simp only [Bool.not_false, ↓reduceIte, Bool.not_true, Bool.false_eq_true]
  symm
  apply filter_all_false
  intro m hm
  split at hm
  all_goals
    simp only [List.mem_append] at hm
    rcases hm with hm | hm <;> (split at hm <;> first | (simp only [List.mem_singleton] at hm; subst hm; decide) | simp at hm)

theorem pieceMoves_filter (g : Game) (piece : Nat) (hp : piece ≤ 12) (att : Nat → UInt64) :
    pieceMoves g false piece att = (pieceMoves g true piece att).filter Move.isCapture := by
  unfold pieceMoves
  simp only [Bool.false_eq_true, ↓reduceIte, List.nil_append, List.filter_flatMap]
  apply List.flatMap_congr'
  intro f hf
  have hf64 : f ≤ 64 := bitsOf_le _ f hf
  simp only [List.filter_append]
  rw [filter_all_false, filter_all_true]
  · simp
  · intro m hm
    simp only [List.mem_map] at hm
    obtain ⟨t, ht, rfl⟩ := hm
    exact isCapture_mk _ _ _ _ _ _ _ _ hf64 (by have := bitsOf_le _ t ht; omega) hp (by decide)
  · intro m hm
    simp only [List.mem_map] at hm
    obtain ⟨t, ht, rfl⟩ := hm
    exact isCapture_mk _ _ _ _ _ _ _ _ hf64 (by have := bitsOf_le _ t ht; omega) hp (by decide)

/-- **T1.1** For every position whatsoever (legal or not; the only assumption is that the en-passant field holds a square
    number or "none", which the Rust type guarantees) the capture-only generator used at the search horizon produces
    exactly the moves of the full generator that carry the capture flag, in the same order: en-passant captures and
    capturing promotions included, castling and quiet promotions excluded. -/
theorem gen_quiescence_eq_filter (g : Game) (hep : g.ep ≤ 64) :
    generateMoves g false = (generateMoves g true).filter Move.isCapture := by
  unfold generateMoves
  simp only [List.filter_append, List.filter_flatMap]
  rw [← castling_filter, ← pieceMoves_filter g _ (by split <;> decide), ← pieceMoves_filter g _ (by split <;> decide),
    ← pieceMoves_filter g _ (by split <;> decide), ← pieceMoves_filter g _ (by split <;> decide), ← pieceMoves_filter g _ (by split <;> decide)]
  have hpawn : (bitsOf (g.bb (WP + if g.white then 0 else 6))).flatMap (pawnMoves g false) =
      (bitsOf (g.bb (WP + if g.white then 0 else 6))).flatMap (fun a => (pawnMoves g true a).filter Move.isCapture) :=
    List.flatMap_congr' (fun f hf => pawnMoves_filter g f (bitsOf_le _ f hf) hep)
  rw [hpawn]

end Jence.Props.C01
