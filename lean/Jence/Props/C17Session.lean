/-
  C17 at the command loop (`Model/Uci`): the inspection commands leave position, table and history alone; a `go` leaves
  the position alone and hands the history back as it found it.
-/
import Jence.Props.C13Session
import Jence.Props.C17
namespace Jence.Props.C17
open Jence

/-- **T17.3** `d`, `eval`, `isready` and `uci` only print: position, table, history array and the liveness flags stay
    as they were, whatever the state -/
theorem inspection_commands_are_pure (W : Nat → Cfg) (s : Session) (line : String) (hne : line ≠ "")
    (h : Env.firstWordLower line = "d" ∨ Env.firstWordLower line = "eval" ∨ Env.firstWordLower line = "isready" ∨
         Env.firstWordLower line = "uci") :
    (s.step W line).1.game = s.game ∧ (s.step W line).1.tt = s.tt ∧ (s.step W line).1.rep = s.rep ∧
    (s.step W line).1.running = s.running ∧ (s.step W line).1.panicked = s.panicked ∧ (s.step W line).2 = [] := by
  unfold Session.step
  rw [if_neg (by simpa using hne)]
  rcases h with h | h | h | h <;> simp only [h, Session.print] <;> trivial

/-- an unknown command only prints -/
theorem unknown_command_is_pure (s : Session) :
    (s.print ["  Unknown command"]).game = s.game ∧ (s.print ["  Unknown command"]).tt = s.tt ∧ (s.print ["  Unknown command"]).rep = s.rep :=
  ⟨rfl, rfl, rfl⟩

/-- **T17.2 at the command loop** a `go` (any form that reaches the search, any input schedule during it) leaves the
    position as it was and hands the history array back with the same recorded history - same length, same keys -
    whenever the history leaves room (`HistoryRoom`, i.e. up to 935 recorded positions; longer games are finding D7) -/
theorem go_keeps_position_and_history (W : Nat → Cfg) (s : Session) (line : String) (hne : line ≠ "") (h : Env.firstWordLower line = "go")
    (msgs : List String) (d t : Int) (hp : parseGo s.game.white (String.ofList (line.toList.drop 2)) = (msgs, .search d t))
    (hroom : HistoryRoom s.rep) :
    (s.step W line).1.game = s.game ∧ (s.step W line).1.rep.pre = s.rep.pre ∧ (s.step W line).1.rep.index = s.rep.index ∧
    (s.step W line).1.panicked = s.panicked ∧ HistoryRoom (s.step W line).1.rep := by
  have ho := (search_no_overflow chessRules { W s.searches with maxTime := t } s.game d s.tt s.rep hroom).1
  obtain ⟨_, h2, h3, h4, _, _, _⟩ := C13.session_go W s line hne h msgs d t hp ho
  have hr := search_restores_of_room chessRules { W s.searches with maxTime := t } s.game d s.tt s.rep hroom
  have hroom' := room_restored chessRules { W s.searches with maxTime := t } s.game d s.tt s.rep hroom
  refine ⟨h4, by rw [h3]; exact hr.2.2.1, by rw [h3]; exact hr.2.1, ?_, by rw [h3]; exact hroom'⟩
  unfold Session.step
  rw [if_neg (by simpa using hne)]
  simp only [h, hp, Session.print, ho, Bool.false_eq_true, ↓reduceIte]

end Jence.Props.C17
