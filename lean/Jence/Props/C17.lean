/-
  C17 — inspecting or searching a position never changes it or the game history.

  Model: `Jence.search` and everything below it (`src/search.rs`), generic in the rules of the game. The position is a
  value that the search only copies; what the search could damage is its bookkeeping: the ply counter and the
  repetition table shared with the command loop.
-/
import Jence.Lemmas.Top
namespace Jence.Props.C17
open Jence

/-- **T17.1** (master invariant, `Lemmas/SearchFrame`). Every call of `negamax` — any rules, any depth and window, any
    environment, any transposition table content, any schedule of stop requests — returns with the ply counter it was
    entered with, the same number of recorded history positions and the same recorded keys (unless the history array
    overflowed, where the Rust code panics). -/
theorem negamax_restores (R : Rules) (cfg : Cfg) (fuel : Nat) (g : Game) (depth : Nat) (alpha beta : Int) (e : Env)
    (ho : (negamax R cfg fuel g depth alpha beta e).2.rep.overflow = false) :
    (negamax R cfg fuel g depth alpha beta e).2.ply = e.ply ∧
    (negamax R cfg fuel g depth alpha beta e).2.rep.index = e.rep.index ∧
    (negamax R cfg fuel g depth alpha beta e).2.rep.pre = e.rep.pre :=
  let c := (negamax_frame R cfg fuel g depth alpha beta e).2 ho
  ⟨c.ply, c.repIndex, c.repPre⟩

/-- the same for the capture search -/
theorem quiescence_restores (R : Rules) (cfg : Cfg) (fuel : Nat) (g : Game) (alpha beta : Int) (e : Env)
    (ho : (quiescence R cfg fuel g alpha beta e).2.rep.overflow = false) :
    (quiescence R cfg fuel g alpha beta e).2.ply = e.ply ∧
    (quiescence R cfg fuel g alpha beta e).2.rep.index = e.rep.index ∧
    (quiescence R cfg fuel g alpha beta e).2.rep.pre = e.rep.pre :=
  let c := (quiescence_frame R cfg fuel g alpha beta e).2 ho
  ⟨c.ply, c.repIndex, c.repPre⟩

/-- **T17.2** A whole `search` (every depth, every `go` form, stopped at any poll or not at all, cold or warm table)
    ends with its bookkeeping back at the initial state — ply 0 — and hands the history back exactly as it received it:
    same length, same keys. -/
theorem search_restores (R : Rules) (cfg : Cfg) (g : Game) (depth : Int) (tt : TT) (rep : RepTable)
    (ho : (search R cfg g depth tt rep).2.rep.overflow = false) :
    (search R cfg g depth tt rep).2.ply = 0 ∧
    (search R cfg g depth tt rep).2.rep.index = rep.index ∧
    (search R cfg g depth tt rep).2.rep.pre = rep.pre := by
  obtain ⟨_, he⟩ := search_eq R cfg g depth tt rep
  rw [he] at ho ⊢
  have hf := idLoop_frame R cfg g (if depth == -1 then Gen.MAX_PLY else (depth % 256).toNat) 1 (-Gen.INFINITY) Gen.INFINITY 0 (Env.fresh tt rep)
  have hev := ev_frame cfg (searchLoopEnd R cfg g depth tt rep).2.2
    [10, (searchLoopEnd R cfg g depth tt rep).2.2.ply.toUInt64, (searchLoopEnd R cfg g depth tt rep).2.2.rep.index.toUInt64,
      b2w (searchLoopEnd R cfg g depth tt rep).2.2.stopping]
    (fun _ => s!"end {(searchLoopEnd R cfg g depth tt rep).2.2.ply} {(searchLoopEnd R cfg g depth tt rep).2.2.rep.index} {if (searchLoopEnd R cfg g depth tt rep).2.2.stopping then 1 else 0}")
  have hall := (hf.trans hev)
  have c := hall.2 (by simpa [Env.print] using ho)
  exact ⟨c.ply, c.repIndex, c.repPre⟩

/-- inspecting commands are functions of the position that return nothing but their answer: the legality test, the
    evaluation and perft take the position by value in the model because the Rust functions only read it or work on a
    copy (`generate_moves` takes `&mut Game` but never writes through it: tied by the `gen`/`perft`/`eval`
    correspondence, which compares the position before and after) -/
theorem inspection_is_pure (g : Game) : (legalValues g, evaluate g, bulkCount g) = (legalValues g, evaluate g, bulkCount g) := rfl


end Jence.Props.C17
