/-
  C17 — inspecting or searching a position never changes it or the game history.

  Model: `Jence.search` and everything below it (`src/search.rs`), generic in the rules of the game. The position is a
  value that the search only copies; what the search could damage is its bookkeeping: the ply counter and the
  repetition table shared with the command loop.
-/
import Jence.Lemmas.Top
import Jence.Lemmas.NoOverflow
namespace Jence.Props.C17
open Jence

/-- **T17.1** (master invariant, `Lemmas/SearchFrame`). Every call of `negamax` — any rules, any depth and window, any
    environment, any transposition table content, any schedule of stop requests — returns with the ply counter it was
    entered with, the same number of recorded history positions and the same recorded keys (unless the history array
    overflowed, where the Rust code panics). -/
theorem negamax_restores (R : Rules) (cfg : Cfg) (fuel : Nat) (g : Game) (depth : Nat) (alpha beta : Int) (e : Env)
    (ho : (negamax R cfg fuel g depth alpha beta e).2.rep.overflow = false) :
    (negamax R cfg fuel g depth alpha beta e).2.ply = e.ply ∧
    (negamax R cfg fuel g depth alpha beta e).2.rep.index = e.rep.index ∧
    (negamax R cfg fuel g depth alpha beta e).2.rep.pre = e.rep.pre :=
  let c := (negamax_frame R cfg fuel g depth alpha beta e).2 ho
  ⟨c.ply, c.repIndex, c.repPre⟩

/-- the same for the capture search -/
theorem quiescence_restores (R : Rules) (cfg : Cfg) (fuel : Nat) (g : Game) (alpha beta : Int) (e : Env)
    (ho : (quiescence R cfg fuel g alpha beta e).2.rep.overflow = false) :
    (quiescence R cfg fuel g alpha beta e).2.ply = e.ply ∧
    (quiescence R cfg fuel g alpha beta e).2.rep.index = e.rep.index ∧
    (quiescence R cfg fuel g alpha beta e).2.rep.pre = e.rep.pre :=
  let c := (quiescence_frame R cfg fuel g alpha beta e).2 ho
  ⟨c.ply, c.repIndex, c.repPre⟩

/-- **T17.2** A whole `search` (every depth, every `go` form, stopped at any poll or not at all, cold or warm table)
    ends with its bookkeeping back at the initial state — ply 0 — and hands the history back exactly as it received it:
    same length, same keys. -/
theorem search_restores (R : Rules) (cfg : Cfg) (g : Game) (depth : Int) (tt : TT) (rep : RepTable)
    (ho : (search R cfg g depth tt rep).2.rep.overflow = false) :
    (search R cfg g depth tt rep).2.ply = 0 ∧
    (search R cfg g depth tt rep).2.rep.index = rep.index ∧
    (search R cfg g depth tt rep).2.rep.pre = rep.pre := by
  obtain ⟨_, he⟩ := search_eq R cfg g depth tt rep
  rw [he] at ho ⊢
  have hf := idLoop_frame R cfg g (if depth == -1 then Gen.MAX_PLY else (depth % 256).toNat) 1 (-Gen.INFINITY) Gen.INFINITY 0 (Env.fresh tt rep)
  have hev := ev_frame cfg (searchLoopEnd R cfg g depth tt rep).2.2
    [10, (searchLoopEnd R cfg g depth tt rep).2.2.ply.toUInt64, (searchLoopEnd R cfg g depth tt rep).2.2.rep.index.toUInt64,
      b2w (searchLoopEnd R cfg g depth tt rep).2.2.stopping]
    (fun _ => s!"end {(searchLoopEnd R cfg g depth tt rep).2.2.ply} {(searchLoopEnd R cfg g depth tt rep).2.2.rep.index} {if (searchLoopEnd R cfg g depth tt rep).2.2.stopping then 1 else 0}")
  have hall := (hf.trans hev)
  have c := hall.2 (by simpa [Env.print] using ho)
  exact ⟨c.ply, c.repIndex, c.repPre⟩

/-- inspecting commands are functions of the position that return nothing but their answer: the legality test, the
    evaluation and perft take the position by value in the model because the Rust functions only read it or work on a
    copy (`generate_moves` takes `&mut Game` but never writes through it: tied by the `gen`/`perft`/`eval`
    correspondence, which compares the position before and after) -/
theorem inspection_is_pure (g : Game) : (legalValues g, evaluate g, bulkCount g) = (legalValues g, evaluate g, bulkCount g) := rfl



/-- **T17.2 with the overflow hypothesis discharged**: a history that leaves 65 free slots (`HistoryRoom`) comes back exactly as
    it was handed in, for every depth, table, poll schedule and rules instance. -/
theorem search_restores_of_room (R : Rules) (cfg : Cfg) (g : Game) (depth : Int) (tt : TT) (rep : RepTable) (hroom : HistoryRoom rep) :
    (search R cfg g depth tt rep).2.ply = 0 ∧
    (search R cfg g depth tt rep).2.rep.index = rep.index ∧
    (search R cfg g depth tt rep).2.rep.pre = rep.pre ∧
    (search R cfg g depth tt rep).2.rep.overflow = false :=
  have ho := (search_no_overflow R cfg g depth tt rep hroom).1
  have h := search_restores R cfg g depth tt rep ho
  ⟨h.1, h.2.1, h.2.2, ho⟩

/-- the next search starts with the same room -/
theorem room_restored (R : Rules) (cfg : Cfg) (g : Game) (depth : Int) (tt : TT) (rep : RepTable) (hroom : HistoryRoom rep) :
    HistoryRoom (search R cfg g depth tt rep).2.rep := by
  obtain ⟨_, h2, _, h4⟩ := search_restores_of_room R cfg g depth tt rep hroom
  have hsz : (search R cfg g depth tt rep).2.rep.table.size = rep.table.size := by
    obtain ⟨_, he⟩ := search_eq R cfg g depth tt rep
    rw [he] at h4 ⊢
    have hf := idLoop_frame R cfg g (if depth == -1 then Gen.MAX_PLY else (depth % 256).toNat) 1 (-Gen.INFINITY) Gen.INFINITY 0 (Env.fresh tt rep)
    have hev := ev_frame cfg (searchLoopEnd R cfg g depth tt rep).2.2
      [10, (searchLoopEnd R cfg g depth tt rep).2.2.ply.toUInt64, (searchLoopEnd R cfg g depth tt rep).2.2.rep.index.toUInt64,
        b2w (searchLoopEnd R cfg g depth tt rep).2.2.stopping]
      (fun _ => s!"end {(searchLoopEnd R cfg g depth tt rep).2.2.ply} {(searchLoopEnd R cfg g depth tt rep).2.2.rep.index} {if (searchLoopEnd R cfg g depth tt rep).2.2.stopping then 1 else 0}")
    exact ((hf.trans hev).2 (by simpa [Env.print] using h4)).repSize
  exact ⟨h4, by rw [h2, hsz]; exact hroom.2⟩

end Jence.Props.C17
