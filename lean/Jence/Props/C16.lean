/-
  C16 — static evaluation is pure, colour-symmetric and bounded.

  Model: `Jence.evaluate` (`src/evaluation.rs`).
-/
import Jence.Model.Eval
import Jence.Lemmas.EvalBound
import Jence.Lemmas.EvalMirror
import Jence.Lemmas.Wf
namespace Jence.Props.C16
open Jence

/-- **T16.1** The evaluation reads only the piece sets, the occupancy sets and the side to move: castling rights,
    en-passant square, both clocks and the key never influence it. -/
theorem eval_ignores (g : Game) (castling ep halfMoves fullMoves : Nat) (key : UInt64) :
    evaluate { g with castling := castling, ep := ep, halfMoves := halfMoves, fullMoves := fullMoves, key := key }
      = evaluate g := rfl

/-- the value from White's point of view does not depend on who is to move -/
theorem evalWhite_side (g : Game) (w : Bool) : evalWhite { g with white := w } = evalWhite g := rfl

/-- **T16.2** Switching only the side to move negates the value. -/
theorem eval_side (g : Game) : evaluate { g with white := !g.white } = - evaluate g := by
  unfold evaluate
  rw [evalWhite_side]
  cases g.white <;> simp

/-- evaluation is a function of (piece sets, occupancies, side): two positions that agree on those get the same value -/
theorem eval_congr (g h : Game) (hb : g.bbs = h.bbs) (hw : g.whiteOcc = h.whiteOcc) (hbl : g.blackOcc = h.blackOcc)
    (ha : g.allOcc = h.allOcc) (hs : g.white = h.white) : evaluate g = evaluate h := by
  have : g = { h with castling := g.castling, ep := g.ep, halfMoves := g.halfMoves, fullMoves := g.fullMoves, key := g.key } := by
    cases g; cases h; simp_all
  rw [this]; rfl

/-- **T16.4** The magnitude of the static evaluation stays strictly below the range reserved for mate scores, for every
    position with one king and at most fifteen other men a side (every position reachable by legal play), whoever is to
    move and whatever the other fields hold. The per-piece bounds are computed from the generated tables, so a re-tuned
    weight or piece-square value re-checks the inequality. -/
theorem eval_bounded (g : Game) (h : MenOk g) : -Gen.MATE_BOUND < evaluate g ∧ evaluate g < Gen.MATE_BOUND :=
  evaluate_bound g h

/-- **T16.3** The colour-mirrored position - every piece set flipped top to bottom and handed to the other colour, the
    occupancy sets swapped likewise, the mover swapped - gets the same value, for every position whose pawns stand on
    rows 2-7 (every legal position). The proof goes piece by piece: material weights are opposite, the black
    piece-square index is the mirrored white one (`MIRRORED`), knight and king patterns and the file / isolated masks are
    mirror-invariant (kernel-decided over all squares), the slider lookups commute with the mirror for every occupancy
    (`Lemmas/Flip.rookAttacks_flip`, through T15.1/T15.3), population counts and emptiness tests are mirror-invariant, and
    a sum over a mirrored piece set is the sum over the set re-indexed. The engine's "passed pawn" masks are *not* mirror
    images of each other on the back rows (`RANK_MASKS[rr * 8]` is always row 8), which is where the hypothesis enters. -/
theorem eval_mirror (g g' : Game) (hm : IsMirror g g') (hp : PawnRows g) : evaluate g' = evaluate g :=
  evaluate_mirror hm hp

/-- the same for the mirror as a function -/
theorem eval_mirror_fn (g : Game) (hp : PawnRows g) : evaluate (mirror g) = evaluate g :=
  evaluate_mirror (mirror_isMirror g) hp

/-- consistent positions have their pawns on rows 2-7 -/
theorem wf_pawnRows (g : Game) (b : Board) (wf : Wf g b) : PawnRows g := by
  intro v hv h
  apply wf.ok.pawns v hv
  rcases h with h | h
  · left; have := rep_bit g.bbs b wf.rep WP v (by decide) hv; rw [show g.bb WP = g.bbs.getD WP 0 from rfl] at h; rw [this] at h; simpa using h
  · right; have := rep_bit g.bbs b wf.rep BP v (by decide) hv; rw [show g.bb BP = g.bbs.getD BP 0 from rfl] at h; rw [this] at h; simpa using h

/-- **T16.3 for consistent positions** -/
theorem eval_mirror_wf (g : Game) (b : Board) (wf : Wf g b) : evaluate (mirror g) = evaluate g :=
  eval_mirror_fn g (wf_pawnRows g b wf)

/-- mirroring twice gives back the piece sets, the occupancies and the mover -/
theorem mirror_mirror_bb (g : Game) (p : Nat) (hp : p < 12) : (mirror (mirror g)).bb p = g.bb p := by
  have h1 := (mirror_isMirror (mirror g)).bb p hp
  have hlt : (p + 6) % 12 < 12 := Nat.mod_lt _ (by decide)
  have h2 := (mirror_isMirror g).bb _ hlt
  have hback : ((p + 6) % 12 + 6) % 12 = p := by omega
  rw [h1, h2, hback, flipBB_flipBB]

/-- the start position as the engine represents it -/
def startGame : Game :=
  { bbs := #[0x00ff000000000000, 0x4200000000000000, 0x2400000000000000, 0x8100000000000000, 0x0800000000000000, 0x1000000000000000,
             0x000000000000ff00, 0x0000000000000042, 0x0000000000000024, 0x0000000000000081, 0x0000000000000008, 0x0000000000000010],
    whiteOcc := 0xffff000000000000, blackOcc := 0x000000000000ffff, allOcc := 0xffff00000000ffff, white := true, ep := 64,
    castling := 15, fullMoves := 1, halfMoves := 0, key := 0 }

set_option maxRecDepth 100000 in
/-- non-vacuity: the hypothesis holds of the start position -/
example : MenOk startGame := by
  constructor <;> decide +kernel

/-- non-vacuity of T16.3: the start position has its pawns on rows 2-7 -/
example : PawnRows startGame := by unfold PawnRows; decide +kernel

/-- the hypothesis of T16.3 is needed: with a black pawn on row 1 behind a white pawn (not a legal position) the two
    values differ - the "passed pawn" masks of the two colours are not mirror images on the back rows. Outside the
    property's quantifier (legal positions); recorded as an observation. -/
def backRowPawns : Game :=
  { bbs := #[bit 28, 0, 0, 0, 0, 0, bit 60, 0, 0, 0, 0, 0], whiteOcc := bit 28, blackOcc := bit 60, allOcc := bit 28 ||| bit 60,
    white := true, ep := 64, castling := 0, fullMoves := 1, halfMoves := 0, key := 0 }
theorem mirror_needs_pawn_rows : evaluate (mirror backRowPawns) ≠ evaluate backRowPawns := by decide +kernel

end Jence.Props.C16
