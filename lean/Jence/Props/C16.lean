/-
  C16 — static evaluation is pure, colour-symmetric and bounded (first part: purity and side-to-move).

  Model: `Jence.evaluate` (`src/evaluation.rs`).
-/
import Jence.Model.Eval
namespace Jence.Props.C16
open Jence

/-- **T16.1** The evaluation reads only the piece sets, the occupancy sets and the side to move: castling rights,
    en-passant square, both clocks and the key never influence it. -/
theorem eval_ignores (g : Game) (castling ep halfMoves fullMoves : Nat) (key : UInt64) :
    evaluate { g with castling := castling, ep := ep, halfMoves := halfMoves, fullMoves := fullMoves, key := key }
      = evaluate g := rfl

/-- the value from White's point of view does not depend on who is to move -/
theorem evalWhite_side (g : Game) (w : Bool) : evalWhite { g with white := w } = evalWhite g := rfl

/-- **T16.2** Switching only the side to move negates the value. -/
theorem eval_side (g : Game) : evaluate { g with white := !g.white } = - evaluate g := by
  unfold evaluate
  rw [evalWhite_side]
  cases g.white <;> simp

/-- evaluation is a function of (piece sets, occupancies, side): two positions that agree on those get the same value -/
theorem eval_congr (g h : Game) (hb : g.bbs = h.bbs) (hw : g.whiteOcc = h.whiteOcc) (hbl : g.blackOcc = h.blackOcc)
    (ha : g.allOcc = h.allOcc) (hs : g.white = h.white) : evaluate g = evaluate h := by
  have : g = { h with castling := g.castling, ep := g.ep, halfMoves := g.halfMoves, fullMoves := g.fullMoves, key := g.key } := by
    cases g; cases h; simp_all
  rw [this]; rfl

end Jence.Props.C16
