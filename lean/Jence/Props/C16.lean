/-
  C16 — static evaluation is pure, colour-symmetric and bounded (first part: purity and side-to-move).

  Model: `Jence.evaluate` (`src/evaluation.rs`).
-/
import Jence.Model.Eval
import Jence.Lemmas.EvalBound
namespace Jence.Props.C16
open Jence

/-- **T16.1** The evaluation reads only the piece sets, the occupancy sets and the side to move: castling rights,
    en-passant square, both clocks and the key never influence it. -/
theorem eval_ignores (g : Game) (castling ep halfMoves fullMoves : Nat) (key : UInt64) :
    evaluate { g with castling := castling, ep := ep, halfMoves := halfMoves, fullMoves := fullMoves, key := key }
      = evaluate g := rfl

/-- the value from White's point of view does not depend on who is to move -/
theorem evalWhite_side (g : Game) (w : Bool) : evalWhite { g with white := w } = evalWhite g := rfl

/-- **T16.2** Switching only the side to move negates the value. -/
theorem eval_side (g : Game) : evaluate { g with white := !g.white } = - evaluate g := by
  unfold evaluate
  rw [evalWhite_side]
  cases g.white <;> simp

/-- evaluation is a function of (piece sets, occupancies, side): two positions that agree on those get the same value -/
theorem eval_congr (g h : Game) (hb : g.bbs = h.bbs) (hw : g.whiteOcc = h.whiteOcc) (hbl : g.blackOcc = h.blackOcc)
    (ha : g.allOcc = h.allOcc) (hs : g.white = h.white) : evaluate g = evaluate h := by
  have : g = { h with castling := g.castling, ep := g.ep, halfMoves := g.halfMoves, fullMoves := g.fullMoves, key := g.key } := by
    cases g; cases h; simp_all
  rw [this]; rfl

/-- **T16.4** The magnitude of the static evaluation stays strictly below the range reserved for mate scores, for every
    position with one king and at most fifteen other men a side (every position reachable by legal play), whoever is to
    move and whatever the other fields hold. The per-piece bounds are computed from the generated tables, so a re-tuned
    weight or piece-square value re-checks the inequality. -/
theorem eval_bounded (g : Game) (h : MenOk g) : -Gen.MATE_BOUND < evaluate g ∧ evaluate g < Gen.MATE_BOUND :=
  evaluate_bound g h

/-- the start position as the engine represents it -/
def startGame : Game :=
  { bbs := #[0x00ff000000000000, 0x4200000000000000, 0x2400000000000000, 0x8100000000000000, 0x0800000000000000, 0x1000000000000000,
             0x000000000000ff00, 0x0000000000000042, 0x0000000000000024, 0x0000000000000081, 0x0000000000000008, 0x0000000000000010],
    whiteOcc := 0xffff000000000000, blackOcc := 0x000000000000ffff, allOcc := 0xffff00000000ffff, white := true, ep := 64,
    castling := 15, fullMoves := 1, halfMoves := 0, key := 0 }

set_option maxRecDepth 100000 in
/-- non-vacuity: the hypothesis holds of the start position -/
example : MenOk startGame := by
  constructor <;> decide +kernel

end Jence.Props.C16
