/-
  C01 — legal move generation is exact: refinement to the rules specification.

  `Spec.Rules` is the independent statement of the rules (mailbox board, coordinate arithmetic, no bitboards, tables or
  move flags); `Spec.abs` maps an engine position to the rules position it denotes (the run-time oracle prints it as FEN);
  `smove` maps a packed move word to the rules move (from, to, promotion kind). `Wf g b` (Lemmas/Wf.lean) is the
  consistent position, `NoKingCapture g` says the side not to move is not in check; both are decidable, evaluated on every
  root by the model driver, and preserved by every accepted move (C02 T2.3).
-/
import Jence.Lemmas.LegalMoves
import Jence.Lemmas.SpecNodup
namespace Jence.Props.C01
open Jence

/-- **T1.3** The legal moves agree, for every consistent position: a rules move is legal (pseudo-legal by the rules'
    per-piece description, castling with its rights / empty squares / no attacked square on the king's way, and not
    leaving the mover in check) **iff** it is the move denoted by an element of `legal_values` (what `generate_moves`
    emits and `is_legal` / `make_search_move` accepts). No move is missing, none is extra - for all positions at once:
    pins, en passant (including the discovered-check cases), promotions and under-promotions, both castlings, double
    checks are all inside this one statement. -/
theorem legal_moves_are_the_rules (g : Game) (b : Board) (wf : Wf g b) (nk : NoKingCapture g) (sm : Spec.SMove) :
    sm ∈ Spec.legalMoves (Spec.abs g) ↔ ∃ m ∈ legalValues g, smove m = sm :=
  legal_refines wf nk sm

/-- **T1.3, with multiplicity** neither list has repeats, so the rules moves denoted by `legal_values` (in generation
    order) are a permutation of the rules' legal move list: counting one counts the other -/
theorem legal_lists_agree_as_multisets (g : Game) (b : Board) (wf : Wf g b) (nk : NoKingCapture g) :
    ((legalValues g).map smove).Perm (Spec.legalMoves (Spec.abs g)) ∧ (generateMoves g true).Nodup ∧
    (Spec.legalMoves (Spec.abs g)).Nodup :=
  ⟨legal_perm wf nk, generateMoves_nodup wf, spec_legal_nodup wf⟩

/-- **T1.4** `is_square_attacked` and `is_in_check` (reverse lookups through the PEXT tables) are the rules' `attacked`
    and `inCheck` -/
theorem attack_tests_are_the_rules (g : Game) (b : Board) (wf : Wf g b) :
    (∀ sq, sq < 64 → ∀ byWhite, isSquareAttacked g sq byWhite = Spec.attacked (Spec.abs g) sq byWhite) ∧
    (∀ white, isInCheck g white = Spec.inCheck (Spec.abs g) white) :=
  ⟨fun sq hsq byWhite => attacked_refines wf sq hsq byWhite, fun white => inCheck_refines wf white⟩

/-- **T1.5** the pseudo-legal level, castling aside: per piece, the generator emits exactly the rules' moves of that piece
    (pushes, double pushes, captures, en passant, all four promotions; slides up to the first blocker; knight and king
    steps) -/
theorem pseudo_legal_moves_are_the_rules (g : Game) (b : Board) (wf : Wf g b) (sm : Spec.SMove) :
    sm ∈ specNonCastle (Spec.abs g) ↔ ∃ m ∈ genNonCastle g, smove m = sm :=
  nonCastle_refines wf sm

/-- no legal move by the engine's count iff no legal move by the rules; and the verdicts agree -/
theorem no_legal_move_iff (g : Game) (b : Board) (wf : Wf g b) (nk : NoKingCapture g) :
    legalValues g = [] ↔ Spec.legalMoves (Spec.abs g) = [] := by
  constructor
  · intro h
    cases hl : Spec.legalMoves (Spec.abs g) with
    | nil => rfl
    | cons sm l =>
      obtain ⟨m, hm, _⟩ := (legal_refines wf nk sm).1 (by rw [hl]; exact List.mem_cons_self)
      rw [h] at hm; exact absurd hm (by simp)
  · intro h
    cases hl : legalValues g with
    | nil => rfl
    | cons m l =>
      have := (legal_refines wf nk (smove m)).2 ⟨m, by rw [hl]; exact List.mem_cons_self, rfl⟩
      rw [h] at this; exact absurd this (by simp)

/-- checkmate and stalemate, as the engine decides them (no element in `legal_values`, in check or not), are the rules'
    checkmate and stalemate -/
theorem terminal_is_the_rules (g : Game) (b : Board) (wf : Wf g b) (nk : NoKingCapture g) :
    ((legalValues g).isEmpty && isInCheck g g.white) = Spec.isMate (Spec.abs g) ∧
    ((legalValues g).isEmpty && !isInCheck g g.white) = Spec.isStalemate (Spec.abs g) := by
  have hin : isInCheck g g.white = Spec.inCheck (Spec.abs g) (Spec.abs g).white := inCheck_refines wf g.white
  have hemp : (legalValues g).isEmpty = (Spec.legalMoves (Spec.abs g)).isEmpty := by
    have := no_legal_move_iff g b wf nk
    cases h1 : legalValues g <;> cases h2 : Spec.legalMoves (Spec.abs g) <;> simp_all
  unfold Spec.isMate Spec.isStalemate
  rw [hemp, hin]
  exact ⟨rfl, rfl⟩

end Jence.Props.C01
