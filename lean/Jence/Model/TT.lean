/-
  Transposition table (`src/transposition_table.rs`): always-replace, one entry per slot
  `key % size`. The slot array is modelled as a finite map from slot number to entry
  (absent = `Empty`); `size` is a parameter, the engine's value is `ttSize`.
-/
import Std.Data.HashMap
import Jence.Gen.Consts
namespace Jence

inductive Flag | alpha | beta | exact
  deriving DecidableEq, Repr, Inhabited

def Flag.code : Flag → Nat
  | .alpha => 0 | .beta => 1 | .exact => 2

structure Entry where
  key : UInt64
  depth : Nat
  flag : Flag
  score : Int
  deriving Inhabited

structure TT where
  size : Nat
  slots : Std.HashMap Nat Entry

/-- size of one `TranspositionTableEntry` in bytes (a `u64`, an `i32`, two bytes and the enum tag,
    padded to 16); cross-checked against the running binary's `TT_SIZE` by the `consts` correspondence -/
def ttEntryBytes : Nat := 16
def ttSize : Nat := Gen.TT_BYTES / ttEntryBytes

namespace TT
def new (size : Nat := ttSize) : TT := ⟨size, {}⟩
def slot (t : TT) (key : UInt64) : Nat := key.toNat % t.size

def record (t : TT) (key : UInt64) (score : Int) (depth : Nat) (flag : Flag) (ply : Nat) : TT :=
  let adjusted :=
    if score < -Gen.MATE_BOUND then score - ply
    else if score > Gen.MATE_BOUND then score + ply
    else score
  { t with slots := t.slots.insert (t.slot key) ⟨key, depth, flag, adjusted⟩ }

def probe (t : TT) (key : UInt64) (depth : Nat) (alpha beta : Int) (ply : Nat) : Int :=
  match t.slots[t.slot key]? with
  | none => Gen.UNKNOWN_SCORE
  | some e =>
    if key == e.key && e.depth >= depth then
      let adjusted :=
        if e.score < -Gen.MATE_BOUND then e.score + ply
        else if e.score > Gen.MATE_BOUND then e.score - ply
        else e.score
      match e.flag with
      | .exact => adjusted
      | .alpha => if adjusted <= alpha then alpha else Gen.UNKNOWN_SCORE
      | .beta => if adjusted >= beta then beta else Gen.UNKNOWN_SCORE
    else Gen.UNKNOWN_SCORE

def clear (t : TT) : TT := { t with slots := {} }
end TT

end Jence
