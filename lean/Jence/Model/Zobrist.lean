/-
  Position keys: the xorshift generator and key tables of `src/utilities.rs`,
  and `Game::make_zobrist_hash` (`src/game.rs`).
-/
import Jence.Model.Types
namespace Jence

/-- `get_random_u32_number`: the shifts are done on a 64-bit copy of the state and the low 32 bits
    are returned -/
def rand32 (state : UInt64) : UInt64 :=
  let n := state
  let n := n ^^^ (n <<< (13 : UInt64))
  let n := n ^^^ (n >>> (17 : UInt64))
  let n := n ^^^ (n <<< (5 : UInt64))
  n &&& 0xFFFFFFFF

/-- `get_random_u64_number`: value and next state -/
def rand64 (state : UInt64) : UInt64 × UInt64 :=
  let n1 := rand32 state
  let n2 := rand32 n1
  let n3 := rand32 n2
  let n4 := rand32 n3
  (n1 ||| (n2 <<< (16 : UInt64)) ||| (n3 <<< (32 : UInt64)) ||| (n4 <<< (48 : UInt64)), n4)

def keyStream : Nat → UInt64 → List UInt64
  | 0, _ => []
  | n + 1, st => let r := rand64 st; r.1 :: keyStream n r.2

def PIECE_KEYS_FLAT : Array UInt64 := (keyStream 768 Gen.PIECE_SEED.toUInt64).toArray
def ENPASSANT_KEYS : Array UInt64 := (keyStream 64 Gen.ENPASSANT_SEED.toUInt64).toArray
def CASTLE_KEYS : Array UInt64 := (keyStream 16 Gen.CASTLE_SEED.toUInt64).toArray
def SIDE_KEY : UInt64 := (rand64 Gen.SIDE_SEED.toUInt64).1

@[inline] def pieceKey (p sq : Nat) : UInt64 := PIECE_KEYS_FLAT.getD (p * 64 + sq) 0
@[inline] def epKey (sq : Nat) : UInt64 := ENPASSANT_KEYS.getD sq 0
@[inline] def castleKey (c : Nat) : UInt64 := CASTLE_KEYS.getD c 0

/-- xor of the piece keys of all set squares of one piece set -/
def xorPiece (p : Nat) (b : UInt64) : UInt64 := (bitsOf b).foldl (fun h s => h ^^^ pieceKey p s) 0

/-- `make_zobrist_hash`: the key computed from scratch -/
def scratchKey (g : Game) : UInt64 :=
  let h := (List.range 12).foldl (fun h p => h ^^^ xorPiece p (g.bb p)) 0
  let h := h ^^^ castleKey g.castling
  let h := if g.white then h else h ^^^ SIDE_KEY
  if g.ep != SQNONE then h ^^^ epKey g.ep else h

end Jence
