/-
  `generate_moves` and `is_legal` (`src/move_generator.rs`), `legal_values` / `bulk_count`
  (`src/move_list.rs`). The generated list is in the order the Rust code pushes.
-/
import Jence.Model.MakeMove
namespace Jence

/-- `(from as i8 ± 8) as u8` -/
@[inline] def u8sub8 (s : Nat) : Nat := (s + 256 - 8) % 256
@[inline] def u8add8 (s : Nat) : Nat := (s + 8) % 256

def promos (white : Bool) : List Nat := if white then [WQ, WN, WR, WB] else [BQ, BN, BR, BB]

/-- pushes of one pawn: single (with promotions on the last row) and double -/
def pawnQuiet (g : Game) (fromSq : Nat) : List Move :=
  let white := g.white
  let pawn := if white then WP else BP
  let toSq := if white then u8sub8 fromSq else u8add8 fromSq
  let notLast := if white then toSq >= 8 else toSq <= 55
  if !getBit g.allOcc toSq then
    if notLast then
      let to2 := if white then u8sub8 toSq else u8add8 toSq
      Move.mk' fromSq toSq pawn PNONE false false false false ::
        (if !getBit g.allOcc to2 && fromSq / 8 == (if white then 6 else 1)
         then [Move.mk' fromSq to2 pawn PNONE false true false false] else [])
    else (promos white).map fun p => Move.mk' fromSq toSq pawn p false false false false
  else []

/-- the en-passant capture of one pawn -/
def pawnEp (g : Game) (fromSq : Nat) : List Move :=
  let pawn := if g.white then WP else BP
  if g.ep != SQNONE && !isEmpty (getPawnAttacks fromSq g.white &&& bit g.ep)
  then [Move.mk' fromSq g.ep pawn PNONE true false true false] else []

/-- the ordinary captures of one pawn (with promotions on the last row) -/
def pawnCaps (g : Game) (fromSq : Nat) : List Move :=
  let white := g.white
  let pawn := if white then WP else BP
  (bitsOf (getPawnAttacks fromSq white &&& (if white then g.blackOcc else g.whiteOcc))).flatMap fun t =>
    if (if white then t >= 8 else t <= 55) then [Move.mk' fromSq t pawn PNONE true false false false]
    else (promos white).map fun p => Move.mk' fromSq t pawn p true false false false

/-- all moves of one pawn, in push order: pushes (mode All only), en passant, captures -/
def pawnMoves (g : Game) (all : Bool) (fromSq : Nat) : List Move :=
  (if all then pawnQuiet g fromSq else []) ++ pawnEp g fromSq ++ pawnCaps g fromSq

def castlingMoves (g : Game) (all : Bool) : List Move :=
  if !all then [] else
  if g.white then
    (if g.castling &&& Gen.CASTLE_WK_RIGHT != 0 && isEmpty (g.allOcc &&& Gen.CASTLE_WK_EMPTY) &&
        !isSquareAttacked g Gen.CASTLE_WK_SAFE1 false && !isSquareAttacked g Gen.CASTLE_WK_SAFE2 false
     then [Move.mk' Gen.CASTLE_WK_FROM Gen.CASTLE_WK_TO WK PNONE false false false true] else []) ++
    (if g.castling &&& Gen.CASTLE_WQ_RIGHT != 0 && isEmpty (g.allOcc &&& Gen.CASTLE_WQ_EMPTY) &&
        !isSquareAttacked g Gen.CASTLE_WQ_SAFE1 false && !isSquareAttacked g Gen.CASTLE_WQ_SAFE2 false
     then [Move.mk' Gen.CASTLE_WQ_FROM Gen.CASTLE_WQ_TO WK PNONE false false false true] else [])
  else
    (if g.castling &&& Gen.CASTLE_BK_RIGHT != 0 && isEmpty (g.allOcc &&& Gen.CASTLE_BK_EMPTY) &&
        !isSquareAttacked g Gen.CASTLE_BK_SAFE1 true && !isSquareAttacked g Gen.CASTLE_BK_SAFE2 true
     then [Move.mk' Gen.CASTLE_BK_FROM Gen.CASTLE_BK_TO BK PNONE false false false true] else []) ++
    (if g.castling &&& Gen.CASTLE_BQ_RIGHT != 0 && isEmpty (g.allOcc &&& Gen.CASTLE_BQ_EMPTY) &&
        !isSquareAttacked g Gen.CASTLE_BQ_SAFE1 true && !isSquareAttacked g Gen.CASTLE_BQ_SAFE2 true
     then [Move.mk' Gen.CASTLE_BQ_FROM Gen.CASTLE_BQ_TO BK PNONE false false false true] else [])

/-- moves of all pieces of one non-pawn kind: per piece, quiet moves (mode All) then captures -/
def pieceMoves (g : Game) (all : Bool) (piece : Nat) (attacksOf : Nat → UInt64) : List Move :=
  let opp := if g.white then g.blackOcc else g.whiteOcc
  (bitsOf (g.bb piece)).flatMap fun f =>
    let a := attacksOf f
    (if all then (bitsOf (a &&& ~~~ g.allOcc)).map fun t => Move.mk' f t piece PNONE false false false false else []) ++
    (bitsOf (a &&& opp)).map fun t => Move.mk' f t piece PNONE true false false false

/-- `generate_moves(game, All | Quiescence)` -/
def generateMoves (g : Game) (all : Bool) : List Move :=
  let o := if g.white then 0 else 6
  (bitsOf (g.bb (WP + o))).flatMap (pawnMoves g all) ++
  castlingMoves g all ++
  pieceMoves g all (WN + o) getKnightAttacks ++
  pieceMoves g all (WB + o) (fun f => getBishopAttacks f g.allOcc) ++
  pieceMoves g all (WR + o) (fun f => getRookAttacks f g.allOcc) ++
  pieceMoves g all (WQ + o) (fun f => getQueenAttacks f g.allOcc) ++
  pieceMoves g all (WK + o) getKingAttacks

/-- the peek-make of `is_legal` -/
def isLegalPeek (g : Game) (m : Move) : Game :=
  let fromSq := m.fromSq
  let toSq := m.toSq
  let piece := m.piece
  let g := { g with allOcc := unsetBit g.allOcc fromSq }
  let g := g.setBB piece (unsetBit (g.bb piece) fromSq)
  let g := g.setBB piece (setBit (g.bb piece) toSq)
  let g := { g with allOcc := setBit g.allOcc toSq }
  if m.isEnpassant then
    if g.white then
      let g := g.setBB BP (unsetBit (g.bb BP) (toSq + 8))
      { g with allOcc := unsetBit g.allOcc (toSq + 8) }
    else
      let g := g.setBB WP (unsetBit (g.bb WP) (toSq - 8))
      { g with allOcc := unsetBit g.allOcc (toSq - 8) }
  else if m.isCapture then
    (captureLoop g (if g.white then BP else WP) toSq 5 0).1
  else g

def isLegal (g : Game) (m : Move) : Bool :=
  !isInCheck (isLegalPeek g m) g.white

/-- `legal_values` -/
def legalValues (g : Game) : List Move := (generateMoves g true).filter (isLegal g)

/-- `bulk_count` -/
def bulkCount (g : Game) : Nat := ((generateMoves g true).filter (isLegal g)).length

/-- `parse_move` -/
def parseMove (g : Game) (s : String) : Option Move := (legalValues g).find? (fun m => m.toUci == s)

end Jence
