/-
  Data: the packed move (`src/cmove.rs`), the position (`src/game.rs`), the repetition
  table (`src/repetition_table.rs`).
-/
import Jence.Gen.Consts
import Jence.Model.Tables
namespace Jence

/-- piece indices as in `enum Piece` -/
abbrev WP := 0
abbrev WN := 1
abbrev WB := 2
abbrev WR := 3
abbrev WQ := 4
abbrev WK := 5
abbrev BP := 6
abbrev BN := 7
abbrev BB := 8
abbrev BR := 9
abbrev BQ := 10
abbrev BK := 11
abbrev PNONE := 12
/-- `Square::None` -/
abbrev SQNONE := 64

/-- 24-bit packed move. The Rust code assembles the word with shifts and ors; with every field in
    range that is the same number as this positional sum. -/
structure Move where
  data : Nat
  deriving DecidableEq, Repr, Inhabited

namespace Move
def mk' (from_ to_ piece promo : Nat) (capture doublePush enpassant castling : Bool) : Move :=
  ⟨from_ + to_ * 64 + piece * 4096 + promo * 65536
    + (if capture then 0x100000 else 0) + (if doublePush then 0x200000 else 0)
    + (if enpassant then 0x400000 else 0) + (if castling then 0x800000 else 0)⟩
def null : Move := ⟨0⟩
def fromSq (m : Move) : Nat := m.data % 64
def toSq (m : Move) : Nat := m.data / 64 % 64
def piece (m : Move) : Nat := m.data / 4096 % 16
def promotion (m : Move) : Nat := m.data / 65536 % 16
def isCapture (m : Move) : Bool := m.data / 0x100000 % 2 == 1
def isDoublePush (m : Move) : Bool := m.data / 0x200000 % 2 == 1
def isEnpassant (m : Move) : Bool := m.data / 0x400000 % 2 == 1
def isCastling (m : Move) : Bool := m.data / 0x800000 % 2 == 1
def toUci (m : Move) : String :=
  Gen.SQUARE_STRINGS.getD m.fromSq "" ++ Gen.SQUARE_STRINGS.getD m.toSq "" ++
    (if m.promotion != PNONE then (Gen.PIECE_STRINGS.getD m.promotion "").toLower else "")
def hex (m : Move) : String := hexN 6 m.data
end Move

structure Game where
  bbs : Array UInt64          -- 12 piece sets
  whiteOcc : UInt64
  blackOcc : UInt64
  allOcc : UInt64
  white : Bool                -- active_player == White
  ep : Nat                    -- 0..63, or 64 = none
  castling : Nat              -- 4-bit set: 1 K, 2 Q, 4 k, 8 q
  fullMoves : Nat             -- u16
  halfMoves : Nat             -- u8
  key : UInt64
  deriving Inhabited, BEq

namespace Game
@[inline] def bb (g : Game) (p : Nat) : UInt64 := g.bbs.getD p 0
@[inline] def setBB (g : Game) (p : Nat) (v : UInt64) : Game := { g with bbs := g.bbs.setIfInBounds p v }
end Game

structure RepTable where
  table : Array UInt64        -- REP_CAPACITY slots
  index : Nat
  overflow : Bool             -- an insert went past the last slot (the Rust code panics there)
  deriving Inhabited

namespace RepTable
def new : RepTable := ⟨Array.replicate Gen.REP_CAPACITY 0, 0, false⟩
def insert (r : RepTable) (h : UInt64) : RepTable :=
  if r.index < r.table.size then { r with table := r.table.setIfInBounds r.index h, index := r.index + 1 }
  else { r with overflow := true }
def moveBack (r : RepTable) : RepTable := { r with index := r.index - 1 }
def clear (r : RepTable) : RepTable := { r with index := 0 }
/-- the recorded history: slots `0 .. index-1` -/
def pre (r : RepTable) : List UInt64 := (List.range r.index).map fun i => r.table.getD i 0
/-- `is_now_in_threefold_repetition(curr_hash)`: does the key occur among the recorded ones -/
def isRepetition (r : RepTable) (h : UInt64) : Bool := r.pre.contains h
end RepTable

end Jence
