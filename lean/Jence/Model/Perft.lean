/-
  `perft` (`src/perft.rs`): bulk count at depth 1, make-and-recurse above. The `rayon` sum over
  the move list is modelled as a list sum (its value does not depend on order or bracketing:
  `Props/C14.lean`).
-/
import Jence.Model.MoveGen
namespace Jence

def perft (g : Game) : Nat → Nat
  | 0 => 0     -- depth 0 is not a valid request (`depth - 1` underflows in Rust)
  | 1 => bulkCount g
  | d + 1 => ((generateMoves g true).map fun m =>
      match makeMove g m with
      | some g' => perft g' d
      | none => 0).sum

end Jence
