/-
  `MoveOk g m`: the move fits the board - the squares it touches hold (or lack) the pieces its fields claim. This is what
  the incremental key update of `make_search_move` relies on (T4.1). It is decidable, so the model driver can evaluate it
  on every generated move of every position the correspondence check visits (`oracle moveok`).
-/
import Jence.Model.MoveGen
namespace Jence

/-- the move fits the board: the squares it touches hold (or lack) the pieces its fields claim -/
structure MoveOk (g : Game) (m : Move) : Prop where
  size : g.bbs.size = 12
  piece : m.piece < 12
  fromLt : m.fromSq < 64
  toLt : m.toSq < 64
  src : getBit (g.bb m.piece) m.fromSq = true
  dst : getBit (g.bb m.piece) m.toSq = false
  ep : m.isEnpassant = true → m.isCapture = true →
        (g.white = true → m.piece ≠ BP ∧ m.toSq + 8 < 64 ∧ getBit (g.bb BP) (m.toSq + 8) = true) ∧
        (g.white = false → m.piece ≠ WP ∧ 8 ≤ m.toSq ∧ getBit (g.bb WP) (m.toSq - 8) = true)
  mover : (g.white = true → m.piece < 6) ∧ (g.white = false → 6 ≤ m.piece)
  promo : m.promotion ≠ PNONE → m.promotion < 12 ∧ m.promotion ≠ m.piece ∧ getBit (g.bb m.promotion) m.toSq = false ∧
        ((g.white = true → m.promotion < 6) ∧ (g.white = false → 6 ≤ m.promotion)) ∧ m.isEnpassant = false
  castle : m.promotion = PNONE → m.isCastling = true →
        (m.toSq = 62 ∧ m.piece ≠ WR ∧ getBit (g.bb WR) 63 = true ∧ getBit (g.bb WR) 61 = false) ∨
        (m.toSq = 58 ∧ m.piece ≠ WR ∧ getBit (g.bb WR) 56 = true ∧ getBit (g.bb WR) 59 = false) ∨
        (m.toSq = 6 ∧ m.piece ≠ BR ∧ getBit (g.bb BR) 7 = true ∧ getBit (g.bb BR) 5 = false) ∨
        (m.toSq = 2 ∧ m.piece ≠ BR ∧ getBit (g.bb BR) 0 = true ∧ getBit (g.bb BR) 3 = false)
  castleNoCap : m.isCastling = true → m.isCapture = false
  dpush : m.isDoublePush = true → (g.white = true → m.toSq + 8 < 64) ∧ (g.white = false → 8 ≤ m.toSq)


set_option synthInstance.maxSize 4096 in
set_option synthInstance.maxHeartbeats 400000 in
instance (g : Game) (m : Move) : Decidable (MoveOk g m) :=
  decidable_of_iff
    ((g.bbs.size = 12) ∧ (m.piece < 12) ∧ (m.fromSq < 64) ∧ (m.toSq < 64) ∧
     (getBit (g.bb m.piece) m.fromSq = true) ∧ (getBit (g.bb m.piece) m.toSq = false) ∧
     (m.isEnpassant = true → m.isCapture = true →
        (g.white = true → m.piece ≠ BP ∧ m.toSq + 8 < 64 ∧ getBit (g.bb BP) (m.toSq + 8) = true) ∧
        (g.white = false → m.piece ≠ WP ∧ 8 ≤ m.toSq ∧ getBit (g.bb WP) (m.toSq - 8) = true)) ∧
     ((g.white = true → m.piece < 6) ∧ (g.white = false → 6 ≤ m.piece)) ∧
     (m.promotion ≠ PNONE → m.promotion < 12 ∧ m.promotion ≠ m.piece ∧ getBit (g.bb m.promotion) m.toSq = false ∧
        ((g.white = true → m.promotion < 6) ∧ (g.white = false → 6 ≤ m.promotion)) ∧ m.isEnpassant = false) ∧
     (m.promotion = PNONE → m.isCastling = true →
        (m.toSq = 62 ∧ m.piece ≠ WR ∧ getBit (g.bb WR) 63 = true ∧ getBit (g.bb WR) 61 = false) ∨
        (m.toSq = 58 ∧ m.piece ≠ WR ∧ getBit (g.bb WR) 56 = true ∧ getBit (g.bb WR) 59 = false) ∨
        (m.toSq = 6 ∧ m.piece ≠ BR ∧ getBit (g.bb BR) 7 = true ∧ getBit (g.bb BR) 5 = false) ∨
        (m.toSq = 2 ∧ m.piece ≠ BR ∧ getBit (g.bb BR) 0 = true ∧ getBit (g.bb BR) 3 = false)) ∧
     (m.isCastling = true → m.isCapture = false) ∧
     (m.isDoublePush = true → (g.white = true → m.toSq + 8 < 64) ∧ (g.white = false → 8 ≤ m.toSq)))
    ⟨fun ⟨a, b, c, d, e, f, g', h, i, j, k, l⟩ => ⟨a, b, c, d, e, f, g', h, i, j, k, l⟩,
     fun h => ⟨h.size, h.piece, h.fromLt, h.toLt, h.src, h.dst, h.ep, h.mover, h.promo, h.castle, h.castleNoCap, h.dpush⟩⟩

/-- the generated moves of `g` that do not fit the board (none, for a consistent position) -/
def movesNotOk (g : Game) : List Move := (generateMoves g true).filter fun m => !decide (MoveOk g m)

end Jence
