/-
  The search (`src/search.rs`) in state-passing style, and `sort_moves` (`src/move_list.rs`).

  * `SearchEnv` becomes `Env`; every block of the Rust functions that touches it is a named helper.
  * The rules of the game enter only through a `Rules` record (chess is `chessRules`), so the
    control-flow theorems hold for every instance.
  * The outside world is a parameter: the answer of the k-th poll is `cfg.stopAt k`.
  * Ghost fields (`polls`, `pollLog`, `digest`, `events`, `postStopWrites`, `out`) mirror what the guarded hooks of
    the Rust build observe; they influence no decision.
-/
import Jence.Model.TT
import Jence.Model.Fen
import Jence.Model.Eval
namespace Jence

structure Rules where
  generate : Game → Bool → List Move          -- `true` = All, `false` = Quiescence
  make : Game → Move → Option Game            -- `none`: the mover would be in check
  inCheck : Game → Bool                       -- side to move in check
  evaluate : Game → Int
  nullMove : Game → Game
  firstLegal : Game → Option Move

def nullMoveOf (g : Game) : Game :=
  let k := g.key ^^^ SIDE_KEY
  let k := if g.ep != SQNONE then k ^^^ epKey g.ep else k
  { g with white := !g.white, key := k, ep := SQNONE }

def chessRules : Rules where
  generate := generateMoves
  make := makeCore
  inCheck := fun g => isInCheck g g.white
  evaluate := evaluate
  nullMove := nullMoveOf
  firstLegal := fun g => (legalValues g).head?

/-- what the outside world presents to the k-th poll -/
structure PollIn where
  deadline : Bool := false           -- `start_time.elapsed() >= max_time` (only asked when a limit is set)
  lines : List String := []          -- input lines that reached the channel since the previous poll

structure Cfg where
  world : Nat → PollIn := fun _ => {}
  maxTime : Int := -1                -- −1 = no limit; 0 = the deadline has passed at every poll
  subMask : Option Nat := none       -- extra poll points (verification builds only)
  ttBypass : Bool := false
  trace : Nat := 0                   -- 0 off, 1 digest, 2 full

structure Env where
  nodes : Nat := 0
  ply : Nat := 0
  killers : Array (Option Move) := Array.replicate (2 * 64) none     -- [k][ply] at k*64+ply
  history : Array Int := Array.replicate (12 * 64) 0                  -- [piece][to]
  pvLen : Array Nat := Array.replicate 64 0
  pv : Array Move := Array.replicate (64 * 64) Move.null              -- [row][col] at row*64+col
  followPv : Bool := false
  scorePv : Bool := false
  stopping : Bool := false
  tt : TT
  ttHits : Nat := 0
  rep : RepTable
  -- ghost
  chan : List String := []           -- the input channel (lines not yet read)
  deferred : List String := []       -- lines handed back to the command loop
  polls : Nat := 0
  pollLog : Array Nat := #[]
  digest : UInt64 := 0xcbf29ce484222325
  events : Nat := 0
  postStopWrites : Nat := 0
  out : Array String := #[]          -- what the engine prints (info / readyok / bestmove lines)
  log : Array String := #[]          -- ghost transcript: the printed lines interleaved with the hook events

@[inline] def fnv (h w : UInt64) : UInt64 := (h ^^^ w) * 0x100000001b3
@[inline] def i2w (x : Int) : UInt64 := x.toInt64.toUInt64
@[inline] def b2w (b : Bool) : UInt64 := if b then 1 else 0

def gameHash (g : Game) : UInt64 :=
  let h := (List.range 12).foldl (fun h p => fnv h (g.bb p)) 0xcbf29ce484222325
  let h := fnv (fnv (fnv h g.whiteOcc) g.blackOcc) g.allOcc
  let h := fnv h (b2w g.white)
  let h := fnv h g.ep.toUInt64
  let h := fnv h g.castling.toUInt64
  let h := fnv h g.halfMoves.toUInt64
  let h := fnv h g.fullMoves.toUInt64
  fnv h g.key

def dumpGame (g : Game) : String :=
  String.intercalate " " ((List.range 12).map fun p => hex16 (g.bb p)) ++ " " ++
  hex16 g.whiteOcc ++ " " ++ hex16 g.blackOcc ++ " " ++ hex16 g.allOcc ++ " " ++
  (if g.white then "w" else "b") ++ " " ++ toString g.ep ++ " " ++ toString g.castling ++ " " ++
  toString g.halfMoves ++ " " ++ toString g.fullMoves ++ " " ++ hex16 g.key

namespace Env

def ev (cfg : Cfg) (e : Env) (words : List UInt64) (line : Unit → String) : Env :=
  if cfg.trace == 0 then e else
  let e := { e with digest := words.foldl fnv e.digest, events := e.events + 1 }
  if cfg.trace == 2 then { e with log := e.log.push ("ev " ++ line ()) } else e

/-- `print!` of one line -/
def print (e : Env) (l : String) : Env := { e with out := e.out.push l, log := e.log.push l }

def pvAt (e : Env) (row col : Nat) : Move := e.pv.getD (row * 64 + col) Move.null
def killer (e : Env) (k ply : Nat) : Option Move := e.killers.getD (k * 64 + ply) none
def hist (e : Env) (piece to_ : Nat) : Int := e.history.getD (piece * 64 + to_) 0

def firstWordLower (l : String) : String := ((l.splitOn " ").headD "").toLower

/-- what `poll_input` does with an input line -/
inductive LineKind | isready | stop | other
  deriving DecidableEq, Repr

def classifyLine (l : String) : LineKind :=
  match firstWordLower l with
  | "isready" => .isready
  | "stop" => .stop
  | _ => .other

/-- `poll_input`: nothing once stopping; else the deadline; else at most one input line -
    `isready` is answered and the search goes on, `stop` stops, anything else stops and is deferred -/
def poll (cfg : Cfg) (e : Env) : Env :=
  if e.stopping then e else
  let inp := cfg.world e.polls
  let e := { e with polls := e.polls + 1, pollLog := e.pollLog.push e.nodes, chan := e.chan ++ inp.lines }
  let e := e.ev cfg [9, e.nodes.toUInt64] (fun _ => s!"poll {e.nodes}")
  if cfg.maxTime != -1 && (cfg.maxTime == 0 || inp.deadline) then { e with stopping := true } else
  match e.chan with
  | [] => e
  | l :: rest =>
    let l := l.trimAscii.toString
    let e := { e with chan := rest }
    match classifyLine l with
    | .isready => e.print "readyok"
    | .stop => { e with stopping := true }
    | .other => { e with deferred := e.deferred ++ [l], stopping := true }

/-- `if envir.nodes & INPUT_POLL_INTERVAL == 0 { poll_input() }` (plus the verification-only extra points) -/
def maybePoll (cfg : Cfg) (e : Env) : Env :=
  let real := e.nodes &&& Gen.INPUT_POLL_INTERVAL == 0
  let extra := match cfg.subMask with | some m => e.nodes &&& m == 0 | none => false
  if real || extra then e.poll cfg else e

/-- the table update of `insert_pv_node`: the move, then the child's row behind it, and the row length -/
def pvInsert (pv : Array Move) (pvLen : Array Nat) (ply : Nat) (m : Move) : Array Move × Array Nat :=
  let pv := pv.setIfInBounds (ply * 64 + ply) m
  let n := pvLen.getD (ply + 1) 0
  let pv := (List.range (n - (ply + 1))).foldl
    (fun pv i => let c := ply + 1 + i; pv.setIfInBounds (ply * 64 + c) (pv.getD ((ply + 1) * 64 + c) Move.null)) pv
  (pv, pvLen.setIfInBounds ply n)

/-- `insert_pv_node` -/
def insertPv (cfg : Cfg) (e : Env) (m : Move) : Env :=
  let e := if e.stopping then { e with postStopWrites := e.postStopWrites + 1 } else e
  let e := e.ev cfg [7, e.ply.toUInt64, m.data.toUInt64] (fun _ => s!"pv {e.ply} {m.hex}")
  { e with pv := (pvInsert e.pv e.pvLen e.ply m).1, pvLen := (pvInsert e.pv e.pvLen e.ply m).2 }

def ttRecord (cfg : Cfg) (e : Env) (key : UInt64) (score : Int) (depth : Nat) (flag : Flag) : Env :=
  let e := if e.stopping then { e with postStopWrites := e.postStopWrites + 1 } else e
  let e := e.ev cfg [8, key, i2w score, depth.toUInt64, flag.code.toUInt64, e.ply.toUInt64]
    (fun _ => s!"ttrec {hex16 key} {score} {depth} {flag.code} {e.ply}")
  { e with tt := e.tt.record key score depth flag e.ply }

def ttProbe (cfg : Cfg) (e : Env) (key : UInt64) (depth : Nat) (alpha beta : Int) : Int :=
  if cfg.ttBypass then Gen.UNKNOWN_SCORE else e.tt.probe key depth alpha beta e.ply

def onNode (cfg : Cfg) (e : Env) (kind : Nat) (g : Game) (depth : Nat) (alpha beta : Int) : Env :=
  if cfg.trace == 0 then e else
  e.ev cfg [kind.toUInt64, gameHash g, e.ply.toUInt64, depth.toUInt64, i2w alpha, i2w beta, e.nodes.toUInt64, b2w e.stopping]
    (fun _ => s!"{if kind == 1 then "N" else "Q"} {e.ply} {depth} {alpha} {beta} {e.nodes} {if e.stopping then 1 else 0} | {dumpGame g}")

end Env

/-- `score_move` (takes `&mut SearchEnv` because it clears `score_pv`) -/
def scoreMove (g : Game) (m : Move) (e : Env) : Int × Env :=
  if e.scorePv && e.pvAt 0 e.ply == m then (20000, { e with scorePv := false })
  else if m.isCapture then
    let start := if g.white then BP else WP
    let taken := match (List.range 5).find? (fun k => getBit (g.bb (start + k)) m.toSq) with
      | some k => start + k
      | none => 0
    ((Gen.MVV_LVA.getD m.piece #[]).getD taken 0 + 10000, e)
  else if e.killer 0 e.ply == some m then (9000, e)
  else if e.killer 1 e.ply == some m then (8000, e)
  else (e.hist m.piece m.toSq, e)

def scoreAll (g : Game) : List Move → Env → Array (Int × Move) → Array (Int × Move) × Env
  | [], e, acc => (acc, e)
  | m :: ms, e, acc => let (s, e) := scoreMove g m e; scoreAll g ms e (acc.push (s, m))

def sortInner (i : Nat) : Nat → Nat → Array (Int × Move) → Array (Int × Move)
  | 0, _, a => a
  | c + 1, j, a =>
    let a := if (a.getD j (0, Move.null)).1 > (a.getD i (0, Move.null)).1 then a.swapIfInBounds i j else a
    sortInner i c (j + 1) a

def sortOuter : Nat → Nat → Array (Int × Move) → Array (Int × Move)
  | 0, _, a => a
  | c + 1, i, a => sortOuter c (i + 1) (sortInner i (a.size - (i + 1)) (i + 1) a)

/-- `sort_moves`: score every move (in list order), then the exchange sort of the Rust code -/
def sortMoves (g : Game) (ms : List Move) (e : Env) : List Move × Env :=
  let (scored, e) := scoreAll g ms e #[]
  (((sortOuter scored.size 0 scored).toList).map (·.2), e)

/-- `enable_pv_scoring` -/
def enablePvScoring (ms : List Move) (e : Env) : Env :=
  let found := ms.any (· == e.pvAt 0 e.ply)
  { e with followPv := found, scorePv := e.scorePv || found }

/-- the move loop of `quiescence` -/
def qLoop (R : Rules) (rec : Game → Int → Int → Env → Int × Env) (g : Game) (beta : Int) :
    List Move → Int → Env → Int × Env
  | [], ta, e => (ta, e)
  | m :: ms, ta, e =>
    match R.make g m with
    | none => qLoop R rec g beta ms ta e
    | some c =>
      let e := { e with rep := e.rep.insert c.key, ply := e.ply + 1 }
      let (s, e) := rec c (-beta) (-ta) e
      let score := -s
      let e := { e with ply := e.ply - 1, rep := e.rep.moveBack }
      if score >= beta then (beta, e)
      else qLoop R rec g beta ms (if score > ta then score else ta) e

/-- entering a quiescence node: hook, poll, count -/
def qEnter (cfg : Cfg) (g : Game) (alpha beta : Int) (e : Env) : Env :=
  let e := e.onNode cfg 2 g 0 alpha beta
  let e := e.maybePoll cfg
  { e with nodes := e.nodes + 1 }

def quiescence (R : Rules) (cfg : Cfg) : Nat → Game → Int → Int → Env → Int × Env
  | 0, _, alpha, _, e => (alpha, e)      -- out of fuel: unreachable (ply cap, `Lemmas/QValue`)
  | fuel + 1, g, alpha, beta, e =>
    let e := qEnter cfg g alpha beta e
    let ev := R.evaluate g
    if e.ply > Gen.MAX_PLY - 1 || g.halfMoves == 100 then (ev, e) else
    if ev >= beta && ev > alpha then (beta, e) else
    let ta := if ev > alpha then ev else alpha
    let (ms, e) := sortMoves g (R.generate g false) e
    qLoop R (quiescence R cfg fuel) g beta ms ta e

/-- outcome of the PVS / LMR cascade for one child -/
def searchChild (rec : Game → Nat → Int → Int → Env → Int × Env) (c : Game) (m : Move)
    (movesSearched depth nDepth : Nat) (inCheck : Bool) (ta beta : Int) (e : Env) : Int × Env :=
  if movesSearched == 0 then
    let (s, e) := rec c (nDepth - 1) (-beta) (-ta) e
    (-s, e)
  else
    let (score, e) :=
      if movesSearched >= Gen.FULL_DEPTH_MOVES && depth >= Gen.REDUCTION_LIMIT && !inCheck && !m.isCapture && m.promotion == PNONE then
        let (s, e) := rec c (nDepth - 2) (-ta - 1) (-ta) e
        (-s, e)
      else (ta + 1, e)
    if score > ta then
      let (s, e) := rec c (nDepth - 1) (-ta - 1) (-ta) e
      let score := -s
      if score > ta && score < beta then
        let (s, e) := rec c (nDepth - 1) (-beta) (-ta) e
        (-s, e)
      else (score, e)
    else (score, e)

inductive LoopOut
  | ret (v : Int)                                  -- `return v` from inside the loop
  | done (ta : Int) (flag : Flag) (legal : Nat)    -- loop ran to the end
  deriving Inhabited

/-- the move loop of `negamax` -/
def moveLoop (R : Rules) (cfg : Cfg) (rec : Game → Nat → Int → Int → Env → Int × Env) (g : Game)
    (depth nDepth : Nat) (inCheck : Bool) (beta : Int) :
    List Move → Int → Flag → Nat → Nat → Env → LoopOut × Env
  | [], ta, flag, legal, _, e => (.done ta flag legal, e)
  | m :: ms, ta, flag, legal, searched, e =>
    match R.make g m with
    | none => moveLoop R cfg rec g depth nDepth inCheck beta ms ta flag legal searched e
    | some c =>
      -- make_search_move pushed the child's key; `move_back` pops it at once (the slot keeps the key)
      let e := { e with ply := e.ply + 1, rep := (e.rep.insert c.key).moveBack }
      let (score, e) := searchChild rec c m searched depth nDepth inCheck ta beta e
      let e := { e with ply := e.ply - 1 }
      if e.stopping then (.ret 0, e) else
      if score > ta then
        let e := e.insertPv cfg m
        if score >= beta then
          let e := if !m.isCapture then
            { e with killers := (e.killers.setIfInBounds (64 + e.ply) (e.killer 0 e.ply)).setIfInBounds e.ply (some m) }
            else e
          let e := e.ttRecord cfg g.key beta depth .beta
          (.ret beta, e)
        else
          let e := if !m.isCapture then
            { e with history := e.history.setIfInBounds (m.piece * 64 + m.toSq) (e.hist m.piece m.toSq + depth) }
            else e
          moveLoop R cfg rec g depth nDepth inCheck beta ms score .exact (legal + 1) (searched + 1) e
      else moveLoop R cfg rec g depth nDepth inCheck beta ms ta flag (legal + 1) (searched + 1) e

def qFuel : Nat := Gen.MAX_PLY + 6

/-- null-move pruning: a pass, searched with a null window at reduced depth; `some v` = return `v` at once -/
def nullMoveStep (R : Rules) (rec : Game → Nat → Int → Int → Env → Int × Env) (g : Game) (nDepth : Nat) (inCheck : Bool)
    (beta : Int) (e : Env) : Option Int × Env :=
  if nDepth >= 3 && !inCheck && e.ply > 0 then
    let c := R.nullMove g
    let e := { e with ply := e.ply + 1 }
    let (s, e) := rec c (nDepth - 1 - 2) (-beta) (-beta + 1) e
    let score := -s
    let e := { e with ply := e.ply - 1 }
    if e.stopping then (some 0, e)
    else if score >= beta then (some beta, e)
    else (none, e)
  else (none, e)

/-- the end of `negamax` after the move loop: mate / stalemate verdict, or the table record -/
def finish (cfg : Cfg) (g : Game) (depth : Nat) (inCheck : Bool) : LoopOut × Env → Int × Env
  | (.ret v, e) => (v, e)
  | (.done ta flag legal, e) =>
    if legal == 0 then
      let e := e.ev cfg [5, e.ply.toUInt64, g.key, b2w inCheck]
        (fun _ => s!"verdict {e.ply} {hex16 g.key} {if inCheck then "mate" else "stalemate"}")
      (if inCheck then -Gen.MATE_VALUE + e.ply else 0, e)
    else
      let e := e.ttRecord cfg g.key ta depth flag
      (ta, e)

/-- generate, order and search the moves of a node -/
def searchMoves (R : Rules) (cfg : Cfg) (rec : Game → Nat → Int → Int → Env → Int × Env) (g : Game)
    (depth nDepth : Nat) (inCheck : Bool) (alpha beta : Int) (e : Env) : Int × Env :=
  let ms := R.generate g true
  let e := if e.followPv then enablePvScoring ms e else e
  let sm := sortMoves g ms e
  finish cfg g depth inCheck (moveLoop R cfg rec g depth nDepth inCheck beta sm.1 alpha .alpha 0 0 sm.2)

/-- a node that is really expanded: count it, try the null move, then the moves -/
def expand (R : Rules) (cfg : Cfg) (rec : Game → Nat → Int → Int → Env → Int × Env) (g : Game)
    (depth : Nat) (alpha beta : Int) (e : Env) : Int × Env :=
  let e := { e with nodes := e.nodes + 1 }
  let inCheck := R.inCheck g
  let nDepth := if inCheck then depth + 1 else depth
  match nullMoveStep R rec g nDepth inCheck beta e with
  | (some v, e) => (v, e)
  | (none, e) => searchMoves R cfg rec g depth nDepth inCheck alpha beta e

/-- after the repetition test and the table probe: reset the PV row, ply cap, poll, horizon -/
def afterProbe (R : Rules) (cfg : Cfg) (rec : Game → Nat → Int → Int → Env → Int × Env) (g : Game)
    (depth : Nat) (alpha beta : Int) (e : Env) : Int × Env :=
  let e := { e with pvLen := e.pvLen.setIfInBounds e.ply e.ply }
  if e.ply >= Gen.MAX_PLY - 1 then (R.evaluate g, e) else
  let e := e.maybePoll cfg
  if depth == 0 || g.halfMoves == 100 then quiescence R cfg qFuel g alpha beta e
  else expand R cfg rec g depth alpha beta e

/-- the draw-by-repetition return (fix f05efd1: first, and on the node's own key) -/
def repReturn (cfg : Cfg) (g : Game) (e : Env) : Int × Env :=
  let e := e.ev cfg [3, e.ply.toUInt64, g.key, e.rep.table.getD e.rep.index 0]
    (fun _ => s!"rep {e.ply} {hex16 g.key} {hex16 (e.rep.table.getD e.rep.index 0)}")
  (0, { e with pvLen := e.pvLen.setIfInBounds e.ply e.ply })

/-- the transposition-table return -/
def ttReturn (cfg : Cfg) (g : Game) (probed : Int) (e : Env) : Int × Env :=
  let e := e.ev cfg [4, e.ply.toUInt64, g.key, i2w probed] (fun _ => s!"tthit {e.ply} {hex16 g.key} {probed}")
  (probed, { e with ttHits := e.ttHits + 1 })

/-- what the table says about this node (`UNKNOWN_SCORE` at the root and at PV nodes, which are never probed) -/
def probeNode (cfg : Cfg) (g : Game) (depth : Nat) (alpha beta : Int) (e : Env) : Int :=
  if e.ply != 0 && !(beta - alpha > 1) then e.ttProbe cfg g.key depth alpha beta else Gen.UNKNOWN_SCORE

def negamax (R : Rules) (cfg : Cfg) : Nat → Game → Nat → Int → Int → Env → Int × Env
  | 0, _, _, alpha, _, e => (alpha, e)     -- out of fuel: unreachable (`Lemmas/Fuel`)
  | fuel + 1, g, depth, alpha, beta, e =>
    let e := e.onNode cfg 1 g depth alpha beta
    if e.ply > 0 && e.rep.isRepetition g.key then repReturn cfg g e
    else if probeNode cfg g depth alpha beta e != Gen.UNKNOWN_SCORE then ttReturn cfg g (probeNode cfg g depth alpha beta e) e
    else afterProbe R cfg (negamax R cfg fuel) g depth alpha beta e

def negaFuel : Nat := Gen.MAX_PLY + 2

/-- the `score` field of an info line -/
inductive ScoreField
  | cp (v : Int)
  | mate (n : Int)
  deriving DecidableEq, Repr

def ScoreField.render : ScoreField → String
  | .cp v => s!"cp {v}"
  | .mate n => s!"mate {n}"

/-- the three-way conversion in `search` (integer division truncates, as in Rust) -/
def scoreField (score : Int) : ScoreField :=
  if score >= -Gen.MATE_VALUE && score < -Gen.MATE_BOUND then .mate (Int.tdiv (-(score + Gen.MATE_VALUE)) 2)
  else if score <= Gen.MATE_VALUE && score > Gen.MATE_BOUND then .mate (Int.tdiv (Gen.MATE_VALUE - score) 2 + 1)
  else .cp score

/-- the conversion before commit 31eef30 (kept for the counterexample theorem) -/
def scoreFieldLegacy (score : Int) : ScoreField :=
  if score >= -Gen.MATE_VALUE && score < -Gen.MATE_BOUND then .mate (Int.tdiv (-(score + Gen.MATE_VALUE)) 2 - 1)
  else if score <= Gen.MATE_VALUE && score > Gen.MATE_BOUND then .mate (Int.tdiv (Gen.MATE_VALUE - score) 2 + 1)
  else .cp score

def mateOrCp (score : Int) : String := (scoreField score).render

def pvLine (e : Env) : String :=
  String.join ((List.range (e.pvLen.getD 0 0)).map fun i => (e.pvAt 0 i).toUci ++ " ")

def infoLine (score : Int) (depth : Nat) (e : Env) : String :=
  s!"info score {mateOrCp score} depth {depth} nodes {e.nodes} time 0 pv {pvLine e}"

/-- the iterative-deepening loop: `count` iterations remain -/
def idLoop (R : Rules) (cfg : Cfg) (g : Game) :
    Nat → Nat → Int → Int → Int → Env → Int × Nat × Env
  | 0, cur, _, _, score, e => (score, cur, e)
  | count + 1, cur, alpha, beta, _, e =>
    let e := { e with followPv := true }
    let (score, e) := negamax R cfg negaFuel g cur alpha beta e
    if e.stopping then (score, cur, e) else
    if score <= alpha || score >= beta then
      idLoop R cfg g count (cur + 1) (-Gen.INFINITY) Gen.INFINITY score e
    else
      let e := e.print (infoLine score cur e)
      idLoop R cfg g count (cur + 1) (score - 50) (score + 50) score e

structure SearchResult where
  bestMove : Move
  nodes : Nat
  score : Int
  depth : Nat
  complete : Bool
  ttHits : Nat

/-- `search(game, depth, …)`; `depth : Int` is the `i8` argument (−1 = no depth limit) -/
def search (R : Rules) (cfg : Cfg) (g : Game) (depth : Int) (tt : TT) (rep : RepTable) : SearchResult × Env :=
  let e : Env := { tt := tt, rep := rep }
  let maxDepth : Nat := if depth == -1 then Gen.MAX_PLY else (depth % 256).toNat
  let (score, cur, e) := idLoop R cfg g maxDepth 1 (-Gen.INFINITY) Gen.INFINITY 0 e
  let e := e.ev cfg [10, e.ply.toUInt64, e.rep.index.toUInt64, b2w e.stopping]
    (fun _ => s!"end {e.ply} {e.rep.index} {if e.stopping then 1 else 0}")
  let pv0 := e.pvAt 0 0
  let best := if pv0 == Move.null then (R.firstLegal g).getD pv0 else pv0
  let e := e.print s!"bestmove {best.toUci}"
  (⟨best, e.nodes, score, cur - 1, !e.stopping, e.ttHits⟩, e)

end Jence
