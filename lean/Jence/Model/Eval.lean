/-
  Static evaluation (`src/evaluation.rs`): mask tables as the `const fn`s compute them and
  `evaluate`, piece set by piece set, square by square.
-/
import Jence.Model.Types
namespace Jence

/-- `generate_file_masks`: bit `f + 8 i` for all `i` -/
def fileMaskOf (sq : Nat) : UInt64 :=
  let f := sq % 8
  (List.range 8).foldl (fun m i => m ||| (bit f <<< (i * 8).toUInt64)) 0
/-- `generate_rank_masks` as written: entry `r*8+f` is row number `f` (bits `8f .. 8f+7`) -/
def rankMaskOf (sq : Nat) : UInt64 :=
  let f := sq % 8
  (List.range 8).foldl (fun m i => m ||| (bit i <<< (8 * f).toUInt64)) 0

def FILE_MASKS : Array UInt64 := (Array.range 64).map fileMaskOf
def RANK_MASKS : Array UInt64 := (Array.range 64).map rankMaskOf

def isolatedMaskOf (sq : Nat) : UInt64 :=
  let f := sq % 8
  (if f > 0 then FILE_MASKS.getD (sq - 1) 0 else 0) ||| (if f < 7 then FILE_MASKS.getD (sq + 1) 0 else 0)
def ISOLATED_MASKS : Array UInt64 := (Array.range 64).map isolatedMaskOf

/-- `mask ^= RANK_MASKS[rr*8] & mask` for each `rr` in the list -/
def clearRows (mask : UInt64) (rows : List Nat) : UInt64 :=
  rows.foldl (fun m rr => m ^^^ (RANK_MASKS.getD (rr * 8) 0 &&& m)) mask

def whitePassedMaskOf (sq : Nat) : UInt64 :=
  let r := sq / 8
  let m := FILE_MASKS.getD sq 0 ||| isolatedMaskOf sq
  -- rr = 7 down to r+1
  clearRows m ((List.range (7 - r)).map fun i => 7 - i)
def blackPassedMaskOf (sq : Nat) : UInt64 :=
  let r := sq / 8
  let m := FILE_MASKS.getD sq 0 ||| isolatedMaskOf sq
  clearRows m (List.range r)
def WHITE_PASSED_PAWN_MASKS : Array UInt64 := (Array.range 64).map whitePassedMaskOf
def BLACK_PASSED_PAWN_MASKS : Array UInt64 := (Array.range 64).map blackPassedMaskOf

@[inline] def tbl (a : Array Int) (i : Nat) : Int := a.getD i 0

/-- contribution of one piece of kind `p` standing on `sq` (white's point of view) -/
def pieceTerm (g : Game) (p sq : Nat) : Int :=
  let fileMask := FILE_MASKS.getD sq 0
  let mat := tbl Gen.MATERIAL_WEIGHTS p
  let pawnTerms (own enemy : UInt64) (passedMask : UInt64) (bonus : Array Int) : Int :=
    let stacked := popCount (own &&& fileMask)
    (if stacked > 1 then (stacked : Int) * Gen.STACKED_PAWN_PENALTY else 0) +
    (if isEmpty (own &&& ISOLATED_MASKS.getD sq 0) then Gen.ISOLATED_PAWN_PENALTY else 0) +
    (if isEmpty (enemy &&& passedMask) then tbl bonus (Gen.LOOKUP_RANK.getD sq 0) else 0)
  let fileTerms (own : UInt64) : Int :=
    (if isEmpty (own &&& fileMask) then Gen.SEMI_OPEN_FILE_SCORE else 0) +
    (if isEmpty ((g.bb WP ||| g.bb BP) &&& fileMask) then Gen.OPEN_FILE_SCORE else 0)
  let msq := Gen.MIRRORED.getD sq 0
  match p with
  | 0 => mat + tbl Gen.PAWN_SCORES sq + pawnTerms (g.bb WP) (g.bb BP) (WHITE_PASSED_PAWN_MASKS.getD sq 0) Gen.PASSED_WHITE_PAWN_BONUS
  | 1 => mat + tbl Gen.KNIGHT_SCORES sq + (popCount (getKnightAttacks sq) : Int)
  | 2 => mat + tbl Gen.BISHOP_SCORES sq + (popCount (getBishopAttacks sq g.allOcc) : Int)
  | 3 => mat + tbl Gen.ROOK_SCORES sq + fileTerms (g.bb WP) + (popCount (getRookAttacks sq g.allOcc) : Int)
  | 4 => mat + (popCount (getQueenAttacks sq g.allOcc) : Int)
  | 5 => mat + tbl Gen.KING_SCORES sq - fileTerms (g.bb WP)
           + (popCount (getKingAttacks sq &&& g.whiteOcc) : Int) * Gen.PROTECTED_KING_BONUS
  | 6 => mat - tbl Gen.PAWN_SCORES msq - pawnTerms (g.bb BP) (g.bb WP) (BLACK_PASSED_PAWN_MASKS.getD sq 0) Gen.PASSED_BLACK_PAWN_BONUS
  | 7 => mat - tbl Gen.KNIGHT_SCORES msq - (popCount (getKnightAttacks sq) : Int)
  | 8 => mat - tbl Gen.BISHOP_SCORES msq - (popCount (getBishopAttacks sq g.allOcc) : Int)
  | 9 => mat - tbl Gen.ROOK_SCORES msq - fileTerms (g.bb BP) - (popCount (getRookAttacks sq g.allOcc) : Int)
  | 10 => mat - (popCount (getQueenAttacks sq g.allOcc) : Int)
  | 11 => mat - tbl Gen.KING_SCORES msq + fileTerms (g.bb BP)
           - (popCount (getKingAttacks sq &&& g.blackOcc) : Int) * Gen.PROTECTED_KING_BONUS
  | _ => 0

/-- white's point of view -/
def evalWhite (g : Game) : Int :=
  (List.range 12).foldl (fun s p => (bitsOf (g.bb p)).foldl (fun s sq => s + pieceTerm g p sq) s) 0

def evaluate (g : Game) : Int := if g.white then evalWhite g else - evalWhite g

end Jence
