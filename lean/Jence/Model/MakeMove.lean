/-
  `is_square_attacked`, `is_in_check` (`src/game.rs`) and `make_search_move` (`src/make_move.rs`).
  A function that mutates through `&mut` returns the new value. `makeSearchMove` returns `none`
  exactly where the Rust function returns `false` (mover left in check).
-/
import Jence.Model.Zobrist
namespace Jence

def isSquareAttacked (g : Game) (sq : Nat) (byWhite : Bool) : Bool :=
  if byWhite then
    !isEmpty (getPawnAttacks sq false &&& g.bb WP) ||
    !isEmpty (getKnightAttacks sq &&& g.bb WN) ||
    !isEmpty (getKingAttacks sq &&& g.bb WK) ||
    !isEmpty (getRookAttacks sq g.allOcc &&& g.bb WR) ||
    !isEmpty (getBishopAttacks sq g.allOcc &&& g.bb WB) ||
    !isEmpty (getQueenAttacks sq g.allOcc &&& g.bb WQ)
  else
    !isEmpty (getPawnAttacks sq true &&& g.bb BP) ||
    !isEmpty (getKnightAttacks sq &&& g.bb BN) ||
    !isEmpty (getKingAttacks sq &&& g.bb BK) ||
    !isEmpty (getRookAttacks sq g.allOcc &&& g.bb BR) ||
    !isEmpty (getBishopAttacks sq g.allOcc &&& g.bb BB) ||
    !isEmpty (getQueenAttacks sq g.allOcc &&& g.bb BQ)

/-- `is_in_check(color)`; `tzcnt` of an empty king set is 64, and table lookups at 64 read past the
    arrays in Rust (panic) - the model's getters return 0 there; no legal position has an empty king set -/
def isInCheck (g : Game) (white : Bool) : Bool :=
  if white then isSquareAttacked g (tzcnt (g.bb WK)) false
  else isSquareAttacked g (tzcnt (g.bb BK)) true

/-- the `for piece in start..end { if get_bit { unset; break } }` loop: remove the first enemy
    non-king piece found on `sq`; returns the piece index removed (if any) -/
def captureLoop (g : Game) (start : Nat) (sq : Nat) : Nat → Nat → Game × Option Nat
  | 0, _ => (g, none)
  | n + 1, k =>
    let p := start + k
    if getBit (g.bb p) sq then (g.setBB p (unsetBit (g.bb p) sq), some p)
    else captureLoop g start sq n (k + 1)

def castleRook (g : Game) (rook from_ to_ : Nat) : Game :=
  let g := g.setBB rook (setBit (g.bb rook) to_)
  let g := { g with key := g.key ^^^ pieceKey rook to_ }
  let g := g.setBB rook (unsetBit (g.bb rook) from_)
  let g := { g with key := g.key ^^^ pieceKey rook from_ }
  if rook == WR then
    { g with whiteOcc := unsetBit (setBit g.whiteOcc to_) from_, allOcc := unsetBit (setBit g.allOcc to_) from_ }
  else
    { g with blackOcc := unsetBit (setBit g.blackOcc to_) from_, allOcc := unsetBit (setBit g.allOcc to_) from_ }

/-- `make_search_move`, step 1: take the en-passant and castling keys out of the key -/
def preKeys (g : Game) : Game :=
  let g := if g.ep != SQNONE then { g with key := g.key ^^^ epKey g.ep } else g
  { g with key := g.key ^^^ castleKey g.castling }

/-- step 2: move the piece (piece set, key, combined occupancy) -/
def preMove (g : Game) (m : Move) : Game :=
  let fromSq := m.fromSq
  let toSq := m.toSq
  let piece := m.piece
  let g := g.setBB piece (unsetBit (g.bb piece) fromSq)
  let g := { g with key := g.key ^^^ pieceKey piece fromSq }
  let g := g.setBB piece (setBit (g.bb piece) toSq)
  let g := { g with key := g.key ^^^ pieceKey piece toSq }
  { g with allOcc := setBit (unsetBit g.allOcc fromSq) toSq }

/-- step 3: remove what was captured (en passant: the pawn behind the target square) -/
def preCapture (g : Game) (m : Move) : Game :=
  let toSq := m.toSq
  if m.isCapture then
    if m.isEnpassant then
      if g.white then
        let g := g.setBB BP (unsetBit (g.bb BP) (toSq + 8))
        { g with blackOcc := unsetBit g.blackOcc (toSq + 8), allOcc := unsetBit g.allOcc (toSq + 8),
                 key := g.key ^^^ pieceKey BP (toSq + 8) }
      else
        let g := g.setBB WP (unsetBit (g.bb WP) (toSq - 8))
        { g with whiteOcc := unsetBit g.whiteOcc (toSq - 8), allOcc := unsetBit g.allOcc (toSq - 8),
                 key := g.key ^^^ pieceKey WP (toSq - 8) }
    else
      let start := if g.white then BP else WP
      let g := if g.white then { g with blackOcc := unsetBit g.blackOcc toSq }
               else { g with whiteOcc := unsetBit g.whiteOcc toSq }
      match captureLoop g start toSq 5 0 with
      | (g', some p) => { g' with key := g'.key ^^^ pieceKey p toSq }
      | (g', none) => g'
  else g

/-- the part of `make_search_move` before the check test -/
def makePre (g : Game) (m : Move) : Game := preCapture (preMove (preKeys g) m) m

/-- after the check test, step 1: the mover's colour occupancy -/
def postOcc (g : Game) (m : Move) : Game :=
  if g.white then { g with whiteOcc := setBit (unsetBit g.whiteOcc m.fromSq) m.toSq }
  else { g with blackOcc := setBit (unsetBit g.blackOcc m.fromSq) m.toSq }

/-- step 2: the half-move clock (a `u8`) -/
def postClock (g : Game) (m : Move) : Game :=
  if m.piece == WP || m.piece == BP || m.isCapture then { g with halfMoves := 0 }
  else { g with halfMoves := (g.halfMoves + 1) % 256 }

/-- step 3: promotion (swap the pawn for the new piece) or castling (the rook hops) -/
def postSpecial (g : Game) (m : Move) : Game :=
  let toSq := m.toSq
  let piece := m.piece
  let promotion := m.promotion
  if promotion != PNONE then
    let g := g.setBB promotion (setBit (g.bb promotion) toSq)
    let g := g.setBB piece (unsetBit (g.bb piece) toSq)
    { g with key := g.key ^^^ pieceKey piece toSq ^^^ pieceKey promotion toSq }
  else if m.isCastling then
    if toSq == 62 then castleRook g WR 63 61
    else if toSq == 58 then castleRook g WR 56 59
    else if toSq == 6 then castleRook g BR 7 5
    else if toSq == 2 then castleRook g BR 0 3
    else g   -- `unreachable!()` in Rust
  else g

/-- step 4: the en-passant square -/
def postEp (g : Game) (m : Move) : Game :=
  if m.isDoublePush then
    if g.white then { g with ep := m.toSq + 8, key := g.key ^^^ epKey (m.toSq + 8) }
    else { g with ep := m.toSq - 8, key := g.key ^^^ epKey (m.toSq - 8) }
  else { g with ep := SQNONE }

/-- step 5: castling rights -/
def postRights (g : Game) (m : Move) : Game :=
  let c := g.castling &&& (Gen.CASTLING_RIGHTS.getD m.toSq 0 &&& Gen.CASTLING_RIGHTS.getD m.fromSq 0)
  { g with castling := c, key := g.key ^^^ castleKey c }

/-- step 6: full-move number (a `u16`) and side to move -/
def postSide (g : Game) : Game :=
  let g := if !g.white then { g with fullMoves := (g.fullMoves + 1) % 65536 } else g
  { g with white := !g.white, key := g.key ^^^ SIDE_KEY }

/-- the part of `make_search_move` after the check test -/
def makePost (g : Game) (m : Move) : Game :=
  postSide (postRights (postEp (postSpecial (postClock (postOcc g m) m) m) m) m)

/-- the position part of `make_search_move`: `none` where Rust returns `false` -/
def makeCore (g : Game) (m : Move) : Option Game :=
  let g1 := makePre g m
  if isInCheck g1 g1.white then none else some (makePost g1 m)

/-- `make_search_move`: on success the key of the new position is pushed on the repetition table -/
def makeSearchMove (g : Game) (m : Move) (rep : RepTable) : Option (Game × RepTable) :=
  (makeCore g m).map fun g2 => (g2, rep.insert g2.key)

/-- `make_move`: a fresh repetition table that is thrown away -/
def makeMove (g : Game) (m : Move) : Option Game :=
  (makeSearchMove g m RepTable.new).map (·.1)

end Jence
