/-
  The command loop of `main` (`src/main.rs`): one input line at a time, dispatched on its first word; the state is the
  position, the transposition table and the history array. A search reads input itself while it runs (`cfg.world`); the
  lines it takes off the channel but does not handle come back to the loop before anything else (`deferred`), followed by
  what is still in the channel.

  Modelled commands: quit / exit / x, uci, isready, ucinewgame / cleartt, position, go (all forms but `random`), d, eval,
  move, and the fall-through "Unknown command". Not modelled (their output contains timings or depends on the
  machine): help, perft, perft!, psuite, sbench, `go random`.
-/
import Jence.Model.Search
import Jence.Model.Fen
import Jence.Model.Budget
import Jence.Model.Eval
namespace Jence

structure Session where
  game : Game
  tt : TT
  rep : RepTable
  out : Array String := #[]
  searches : Nat := 0          -- how many searches have been started (selects the input schedule of the next one)
  running : Bool := true       -- false after quit / exit / x
  panicked : Bool := false     -- an `unwrap()` / `panic!` ended the process
  unmodelled : Bool := false   -- a command outside the model was met

/-- the state `main` starts with -/
def Session.init (startGame : Game) : Session := { game := startGame, tt := TT.new, rep := RepTable.new }

def Session.print (s : Session) (ls : List String) : Session := { s with out := s.out ++ ls.toArray }
def Session.die (s : Session) : Session := { s with panicked := true, running := false }

/-- `move m1 m2 …`: each move through `parse_move` and `make_search_move`; an unknown move panics -/
def sessionMoves : List String → Game → RepTable → Option (Game × RepTable)
  | [], g, rep => some (g, rep)
  | mv :: rest, g, rep =>
    match parseMove g mv with
    | none => none
    | some m => match makeSearchMove g m rep with
      | some (g', rep') => if rep'.overflow then none else sessionMoves rest g' rep'
      | none => sessionMoves rest (makePre g m) rep

/-- one line of input: the new state and the lines the loop will read next before any further input
    (`W k` is what the outside world does during the `k`-th search: deadline, lines arriving at each poll) -/
def Session.step (W : Nat → Cfg) (s : Session) (line : String) : Session × List String :=
  if line == "" then (s, []) else
  let toks := line.splitOn " "
  let more := toks.length ≥ 2          -- `split.peek().is_some()` after the first word
  match Env.firstWordLower line with
  | "exit" | "x" | "quit" => ({ s.print [" Exited!"] with running := false }, [])
  | "uci" => (s.print ["id name JENCE", "id author Joachim Enggaard Nebel", "uciok"], [])
  | "isready" => (s.print ["readyok"], [])
  | "ucinewgame" | "cleartt" => ({ s with rep := s.rep.clear, tt := s.tt.clear }, [])
  | "d" => (s.print (prettyPrint s.game), [])
  | "eval" => (s.print [s!" {evaluate s.game}"], [])
  | "position" =>
    if !more then (s, []) else
    match parsePosition (String.ofList (line.toList.drop 9)) s.rep.clear with
    | .ok (g, rep) => ({ s with game := g, rep := rep }, [])
    | _ => (s.die, [])
  | "move" =>
    (match sessionMoves (toks.drop 1) s.game s.rep with
     | some (g, rep) => { s with game := g, rep := rep }
     | none => s.die, [])
  | "go" =>
    let (msgs, r) := parseGo s.game.white (String.ofList (line.toList.drop 2))
    let s := s.print msgs
    (match r with
     | .panic => (s.die, [])
     | .nosearch => (s, [])
     | .search d t =>
       let cfg : Cfg := { W s.searches with maxTime := t }
       let (_, e) := search chessRules cfg s.game d s.tt s.rep
       if e.rep.overflow then (s.die, []) else
       ({ s.print e.out.toList with tt := e.tt, rep := e.rep, searches := s.searches + 1 },
        e.deferred ++ e.chan.map fun l => l.trimAscii.toString))
  | "help" | "perft" | "perft!" | "psuite" | "sbench" => ({ s with unmodelled := true, running := false }, [])
  | _ => (s.print ["  Unknown command"], [])

/-- the loop: lines handed back by a search are read before the rest of the input -/
def Session.run (W : Nat → Cfg) : Nat → Session → List String → Session
  | 0, s, _ => s
  | _, s, [] => s
  | fuel + 1, s, l :: rest =>
    if !s.running then s else
    let (s', next) := s.step W l
    Session.run W fuel s' (next ++ rest)

end Jence
