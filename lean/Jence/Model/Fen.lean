/-
  `Game::new_from_fen`, `square_from_string`, `char_to_piece` (`src/game.rs`, `src/utilities.rs`),
  `parse_position` (`src/main.rs`) and `pretty_print`. Results are three-valued: a position, `none`
  (the Rust function returns `None`) or a panic (an `unwrap()` / index that fails in Rust).
-/
import Jence.Model.MoveGen
namespace Jence

inductive Res (α : Type)
  | ok (a : α)
  | none
  | panic
  deriving Inhabited

def charToPiece (c : Char) : Option Nat :=
  match c with
  | 'P' => some WP | 'R' => some WR | 'N' => some WN | 'B' => some WB | 'Q' => some WQ | 'K' => some WK
  | 'p' => some BP | 'r' => some BR | 'n' => some BN | 'b' => some BB | 'q' => some BQ | 'k' => some BK
  | _ => none

/-- Rust `parse::<u8>` / `<u16>`: optional `+`, digits, range check -/
def parseRustUnsigned (s : String) (hi : Nat) : Option Nat :=
  let cs := s.toList
  let ds := match cs with | '+' :: r => r | r => r
  if ds.isEmpty || !ds.all Char.isDigit then none else
  let n := ds.foldl (fun a c => a * 10 + (c.toNat - '0'.toNat)) 0
  if n <= hi then some n else none

/-- `square_from_string`: `None` here means the Rust code panics (underflow, bad digit, short string) -/
def squareFromString (s : String) : Option Nat :=
  match s.toUTF8.toList with
  | c0 :: c1 :: _ =>
    if c0.toNat < 97 then none else
    let x := c0.toNat - 97
    if c1.toNat < 48 || c1.toNat > 57 then none else
    let d := c1.toNat - 48
    if d > 8 then none else
    let y := 8 - d
    let i := 8 * y + x
    if i < 65 then some i else none
  | _ => none

structure BoardAcc where
  bbs : Array UInt64 := Array.replicate 12 0
  w : UInt64 := 0
  b : UInt64 := 0
  a : UInt64 := 0
  i : Nat := 0

/-- the placement loop; `none` = unknown piece letter. The square counter is a `u8` that wraps in
    release builds; only `i mod 64` matters because `1 << i` masks the shift amount. -/
def placeChars : List Char → BoardAcc → Option BoardAcc
  | [], acc => some acc
  | c :: cs, acc =>
    if c.isDigit then placeChars cs { acc with i := acc.i + (c.toNat - '0'.toNat) }
    else if c == '/' then placeChars cs acc
    else match charToPiece c with
      | none => none
      | some p =>
        let acc := { acc with bbs := acc.bbs.setIfInBounds p (setBit (acc.bbs.getD p 0) acc.i),
                              a := setBit acc.a acc.i }
        let acc := if c.isUpper then { acc with w := setBit acc.w acc.i } else { acc with b := setBit acc.b acc.i }
        placeChars cs { acc with i := acc.i + 1 }

def strContains (s : String) (c : Char) : Bool := s.toList.contains c

/-- the en-passant field: `-` or a square name (`none` here = the Rust code panics) -/
def parseEp (epStr : String) : Option Nat := if epStr != "-" then squareFromString epStr else some SQNONE

def parseFen (input : String) : Res Game :=
  let fen := input.trimAscii.toString
  let toks := fen.splitOn " "
  match toks with
  | [] => .none
  | boardStr :: rest =>
    match placeChars boardStr.toList {} with
    | none => .none
    | some acc =>
      match rest with
      | [] => .none
      | active :: rest =>
        let white := active == "w"
        let (castStr, rest) := match rest with | [] => ("", []) | c :: r => (c, r)
        let castling := (if strContains castStr 'K' then 1 else 0) + (if strContains castStr 'Q' then 2 else 0)
                      + (if strContains castStr 'k' then 4 else 0) + (if strContains castStr 'q' then 8 else 0)
        let (epStr, rest) := match rest with | [] => ("-", []) | c :: r => (c, r)
        match parseEp epStr with
        | none => .panic
        | some ep =>
          let (halfR, rest) : Option Nat × List String := match rest with
            | [] => (some 0, []) | c :: r => (parseRustUnsigned c 255, r)
          let fullR : Option Nat := match rest with
            | [] => some 0 | c :: _ => parseRustUnsigned c 65535
          match halfR, fullR with
          | some half, some full =>
            let g : Game := { bbs := acc.bbs, whiteOcc := acc.w, blackOcc := acc.b, allOcc := acc.a, white := white,
                              ep := ep, castling := castling, fullMoves := full, halfMoves := half, key := 0 }
            .ok { g with key := scratchKey g }
          | _, _ => .panic

def startFen : String := "rnbqkbnr/pppppppp/8/8/8/8/PPPPPPPP/RNBQKBNR w KQkq - 0 1"

def replayMoves : List String → Game → RepTable → Res (Game × RepTable)
  | [], g, rep => .ok (g, rep)
  | mv :: rest, g, rep =>
    match parseMove g mv with
    | none => .panic                       -- panic!("Illegal move")
    | some m => match makeSearchMove g m rep with
      | some (g', rep') => if rep'.overflow then .panic else replayMoves rest g' rep'
      | none => replayMoves rest (makePre g m) rep     -- Rust ignores the `false` and goes on with the half-made position (a move of `legal_values` never gets here: `Props/C01`)

/-- `parse_position(args, rep_table)` (the caller has cleared the table) -/
def parsePosition (args : String) (rep : RepTable) : Res (Game × RepTable) :=
  let pos := (args.splitOn " ").headD ""
  let base : Res (Game × String) :=
    if pos == "startpos" then
      match parseFen startFen with
      | .ok g => .ok (g, String.ofList (args.toList.drop 9))
      | _ => .panic
    else if pos == "fen" then
      if args.utf8ByteSize < 5 then .none else
      let fenChars := (args.toList.drop 4).takeWhile (· != 'm')
      let fen := String.ofList fenChars
      let rest := String.ofList (args.toList.drop (4 + fen.utf8ByteSize))
      match parseFen fen with
      | .ok g => .ok (g, rest)
      | .none => .none
      | .panic => .panic
    else .none
  match base with
  | .none => .none
  | .panic => .panic
  | .ok (g, rest) =>
    let rep := rep.insert g.key
    if rep.overflow then .panic else
    let toks := rest.splitOn " "
    match toks with
    | "moves" :: mvs => replayMoves mvs g rep
    | _ => .ok (g, rep)

def castlingString (g : Game) : String :=
  (if g.castling &&& 1 != 0 then "K" else "") ++ (if g.castling &&& 2 != 0 then "Q" else "") ++
  (if g.castling &&& 4 != 0 then "k" else "") ++ (if g.castling &&& 8 != 0 then "q" else "")

def pieceGlyph (g : Game) (sq : Nat) : String :=
  let names := #["P.", "N.", "B.", "R.", "Q.", "K.", "p ", "n ", "b ", "r ", "q ", "k "]
  match (List.range 12).find? (fun p => getBit (g.bb p) sq) with
  | some p => names.getD p "  "
  | none => "  "

/-- the lines `pretty_print` writes -/
def prettyPrint (g : Game) : List String :=
  let rowLine (y : Nat) : String :=
    toString (8 - y) ++ " │" ++
      String.join ((List.range 8).map fun x => " " ++ pieceGlyph g (8 * y + x) ++ " " ++ (if x != 7 then "│" else "")) ++ "│"
  let rows := (List.range 8).flatMap fun y =>
    [rowLine y] ++ (if y != 7 then ["  ├────┼────┼────┼────┼────┼────┼────┼────┤"] else [])
  ["", "  ┌────┬────┬────┬────┬────┬────┬────┬────┐"] ++ rows ++
  ["  └────┴────┴────┴────┴────┴────┴────┴────┘",
   "    a    b    c    d    e    f    g    h", "",
   "   Active:     " ++ (if g.white then "White" else "Black") ++ "\tFull moves: " ++ toString g.fullMoves,
   "   Enpassant:  " ++ Gen.SQUARE_STRINGS.getD g.ep "" ++ "\tHalf moves: " ++ toString g.halfMoves,
   "   Castling:   " ++ castlingString g ++ "  \tZobrist:   0x" ++ hex (scratchKey g), ""]

end Jence
