/-
  Bit sets: the operations of `src/bitboard.rs` on `UInt64`, under the same names.
  Squares are natural numbers; a shift amount is reduced modulo 64 exactly as the hardware
  (and Rust in release mode) does.
-/
namespace Jence

/-- `1 << sq` as Rust release mode computes it (shift amount masked to 6 bits). -/
@[inline] def bit (s : Nat) : UInt64 := (1 : UInt64) <<< (s % 64).toUInt64

@[inline] def getBit (b : UInt64) (s : Nat) : Bool := (b &&& bit s) != 0
@[inline] def setBit (b : UInt64) (s : Nat) : UInt64 := b ||| bit s
/-- `bits &= (1 << sq) ^ bits` -/
@[inline] def unsetBit (b : UInt64) (s : Nat) : UInt64 := b &&& (bit s ^^^ b)
@[inline] def isEmpty (b : UInt64) : Bool := b == 0

/-- `_blsr_u64`: clear the lowest set bit -/
@[inline] def blsr (b : UInt64) : UInt64 := b &&& (b - 1)

/-- one step of the binary search for the lowest set bit: if the low `k` bits (mask `m`) are all clear, drop them -/
@[inline] def tzStage (k : Nat) (m : UInt64) (p : UInt64 × Nat) : UInt64 × Nat :=
  if p.1 &&& m == 0 then (p.1 >>> k.toUInt64, p.2 + k) else p

/-- `_tzcnt_u64`: number of trailing zero bits, 64 for 0 (binary search on the low halves) -/
def tzcnt (b : UInt64) : Nat :=
  if b == 0 then 64 else
  let p := tzStage 32 0xFFFFFFFF (b, 0)
  let p := tzStage 16 0xFFFF p
  let p := tzStage 8 0xFF p
  let p := tzStage 4 0xF p
  let p := tzStage 2 0x3 p
  if p.1 &&& 0x1 == 0 then p.2 + 1 else p.2

/-- the `while !bb.is_empty() { extract_bit() }` loop: set bits in ascending order -/
def bitsOfAux : Nat → UInt64 → List Nat → List Nat
  | 0, _, acc => acc.reverse
  | fuel + 1, b, acc => if b == 0 then acc.reverse else bitsOfAux fuel (blsr b) (tzcnt b :: acc)

def bitsOf (b : UInt64) : List Nat := bitsOfAux 64 b []

/-- `count_ones`: clear the lowest set bit until nothing is left, counting the steps -/
def popLoop : Nat → UInt64 → Nat → Nat
  | 0, _, acc => acc
  | fuel + 1, b, acc => if b == 0 then acc else popLoop fuel (blsr b) (acc + 1)

def popCount (b : UInt64) : Nat := popLoop 64 b 0

/-- `_pext_u64` by its ISA definition: gather the bits of `x` selected by `mask` into the low bits -/
def pextAux : Nat → UInt64 → UInt64 → Nat → UInt64 → UInt64
  | 0, _, _, _, acc => acc
  | fuel + 1, x, m, k, acc =>
    if m == 0 then acc else
    let s := tzcnt m
    pextAux fuel x (blsr m) (k + 1) (if getBit x s then acc ||| bit k else acc)

def pext (x mask : UInt64) : UInt64 := pextAux 64 x mask 0 0

/-- `set_occupancy` of build.rs (= PDEP): scatter the low bits of `index` over the set bits of `mask` -/
def pdepAux : Nat → UInt64 → UInt64 → Nat → UInt64 → UInt64
  | 0, _, _, _, acc => acc
  | fuel + 1, idx, m, k, acc =>
    if m == 0 then acc else
    let s := tzcnt m
    pdepAux fuel idx (blsr m) (k + 1) (if getBit idx k then acc ||| bit s else acc)

def pdep (index mask : UInt64) : UInt64 := pdepAux 64 index mask 0 0

def hex16 (v : UInt64) : String :=
  let ds := (Nat.toDigits 16 v.toNat)
  String.ofList (List.replicate (16 - ds.length) '0' ++ ds)

def hexN (n : Nat) (v : Nat) : String :=
  let ds := (Nat.toDigits 16 v)
  String.ofList (List.replicate (n - ds.length) '0' ++ ds)

def hex (v : UInt64) : String := String.ofList (Nat.toDigits 16 v.toNat)

end Jence
