/-
  Attack tables: a function-by-function model of `build.rs` (what it writes into
  `$OUT_DIR/consts.rs`) and of the getters in `src/attack_tables.rs`.
-/
import Jence.Model.Bits
namespace Jence

/-- one ray of `rook_attacks_on_the_fly` / `bishop_attacks_on_the_fly`: at most `count` steps of
    `d` bit positions, towards lower (`up = true`, `>>`) or higher (`<<`) square numbers; every square
    reached is included and the walk stops after the first occupied one -/
def rayWalk (base occ : UInt64) (up : Bool) (d : Nat) : Nat → Nat → UInt64 → UInt64
  | 0, _, acc => acc
  | c + 1, k, acc =>
    let offs := (d * (k + 1)).toUInt64
    let b := if up then base >>> offs else base <<< offs
    let acc := acc ||| b
    if occ &&& b != 0 then acc else rayWalk base occ up d c (k + 1) acc

/-- the mask loops of `rook_mask` / `bishop_mask`: `count` steps, no stopping -/
def rayMask (base : UInt64) (up : Bool) (d : Nat) : Nat → Nat → UInt64 → UInt64
  | 0, _, acc => acc
  | c + 1, k, acc =>
    let offs := (d * (k + 1)).toUInt64
    let b := if up then base >>> offs else base <<< offs
    rayMask base up d c (k + 1) (acc ||| b)

def rookAttacksOnTheFly (sq : Nat) (occ : UInt64) : UInt64 :=
  let base := bit sq
  let file := sq % 8
  let rank := sq / 8
  let r := rayWalk base occ true 1 file 0 0            -- LEFT
  let r := rayWalk base occ false 1 (7 - file) 0 r     -- RIGHT
  let r := rayWalk base occ true 8 rank 0 r            -- UP
  rayWalk base occ false 8 (7 - rank) 0 r              -- DOWN

def bishopAttacksOnTheFly (sq : Nat) (occ : UInt64) : UInt64 :=
  let base := bit sq
  let file := sq % 8
  let rank := sq / 8
  let r := rayWalk base occ false 9 (min (7 - rank) (7 - file)) 0 0   -- Down-Right
  let r := rayWalk base occ false 7 (min (7 - rank) file) 0 r         -- Down-Left
  let r := rayWalk base occ true 9 (min rank file) 0 r                -- Up-Left
  rayWalk base occ true 7 (min rank (7 - file)) 0 r                   -- Up-Right

def rookMaskOf (sq : Nat) : UInt64 :=
  let base := bit sq
  let file := sq % 8
  let rank := sq / 8
  let r := rayMask base true 1 (file - 1) 0 0          -- while file > 1
  let r := rayMask base false 1 (6 - file) 0 r         -- while file < 6
  let r := rayMask base true 8 (rank - 1) 0 r
  rayMask base false 8 (6 - rank) 0 r

def bishopMaskOf (sq : Nat) : UInt64 :=
  let base := bit sq
  let file := sq % 8
  let rank := sq / 8
  let r := rayMask base false 9 (min (6 - rank) (6 - file)) 0 0
  let r := rayMask base false 7 (min (6 - rank) (file - 1)) 0 r
  let r := rayMask base true 9 (min (rank - 1) (file - 1)) 0 r
  rayMask base true 7 (min (rank - 1) (6 - file)) 0 r

def ROOK_MASK : Array UInt64 := (Array.range 64).map rookMaskOf
def BISHOP_MASK : Array UInt64 := (Array.range 64).map bishopMaskOf

def pawnAttacksOf (white : Bool) (sq : Nat) : UInt64 :=
  let base := bit sq
  let file := sq % 8
  if white then
    (if file != 7 then base >>> (7 : UInt64) else 0) ||| (if file != 0 then base >>> (9 : UInt64) else 0)
  else
    (if file != 0 then base <<< (7 : UInt64) else 0) ||| (if file != 7 then base <<< (9 : UInt64) else 0)

def knightAttacksOf (sq : Nat) : UInt64 :=
  let base := bit sq
  let file := sq % 8
  let rank := sq / 8
  (if rank > 1 && file < 7 then base >>> (15 : UInt64) else 0) |||
  (if rank > 0 && file < 6 then base >>> (6 : UInt64) else 0) |||
  (if rank < 7 && file < 6 then base <<< (10 : UInt64) else 0) |||
  (if rank < 6 && file < 7 then base <<< (17 : UInt64) else 0) |||
  (if rank > 1 && file > 0 then base >>> (17 : UInt64) else 0) |||
  (if rank > 0 && file > 1 then base >>> (10 : UInt64) else 0) |||
  (if rank < 7 && file > 1 then base <<< (6 : UInt64) else 0) |||
  (if rank < 6 && file > 0 then base <<< (15 : UInt64) else 0)

def kingAttacksOf (sq : Nat) : UInt64 :=
  let base := bit sq
  let file := sq % 8
  let rank := sq / 8
  (if rank > 0 then base >>> (8 : UInt64) else 0) |||
  (if file > 0 then base >>> (1 : UInt64) else 0) |||
  (if rank < 7 then base <<< (8 : UInt64) else 0) |||
  (if file < 7 then base <<< (1 : UInt64) else 0) |||
  (if file > 0 && rank > 0 then base >>> (9 : UInt64) else 0) |||
  (if file < 7 && rank > 0 then base >>> (7 : UInt64) else 0) |||
  (if file > 0 && rank < 7 then base <<< (7 : UInt64) else 0) |||
  (if file < 7 && rank < 7 then base <<< (9 : UInt64) else 0)

def WHITE_PAWN_ATTACKS : Array UInt64 := (Array.range 64).map (pawnAttacksOf true)
def BLACK_PAWN_ATTACKS : Array UInt64 := (Array.range 64).map (pawnAttacksOf false)
def KNIGHT_ATTACKS : Array UInt64 := (Array.range 64).map knightAttacksOf
def KING_ATTACKS : Array UInt64 := (Array.range 64).map kingAttacksOf

/-- entries of one square's block: index `i` holds the attack set for occupancy `set_occupancy(i, mask)` -/
def blockOf (onTheFly : Nat → UInt64 → UInt64) (mask : UInt64) (sq : Nat) : Array UInt64 :=
  (Array.range (2 ^ popCount mask)).map fun i => onTheFly sq (pdep i.toUInt64 mask)

/-- prefix sums of the block sizes, starting at `start` -/
def offsetsFrom (masks : Array UInt64) (start : Nat) : Array Nat × Nat :=
  masks.foldl (fun (acc, off) m => (acc.push off, off + 2 ^ popCount m)) (#[], start)

def ROOK_OFFSETS : Array Nat := (offsetsFrom ROOK_MASK 0).1
def BISHOP_OFFSETS : Array Nat := (offsetsFrom BISHOP_MASK (offsetsFrom ROOK_MASK 0).2).1

def SLIDING_ATTACKS : Array UInt64 :=
  let rook := (Array.range 64).foldl (fun acc sq => acc ++ blockOf rookAttacksOnTheFly (ROOK_MASK.getD sq 0) sq) #[]
  (Array.range 64).foldl (fun acc sq => acc ++ blockOf bishopAttacksOnTheFly (BISHOP_MASK.getD sq 0) sq) rook

-- Getters (src/attack_tables.rs)
def getPawnAttacks (sq : Nat) (white : Bool) : UInt64 :=
  if white then WHITE_PAWN_ATTACKS.getD sq 0 else BLACK_PAWN_ATTACKS.getD sq 0
def getKnightAttacks (sq : Nat) : UInt64 := KNIGHT_ATTACKS.getD sq 0
def getKingAttacks (sq : Nat) : UInt64 := KING_ATTACKS.getD sq 0
def getRookAttacks (sq : Nat) (occ : UInt64) : UInt64 :=
  SLIDING_ATTACKS.getD (ROOK_OFFSETS.getD sq 0 + (pext occ (ROOK_MASK.getD sq 0)).toNat) 0
def getBishopAttacks (sq : Nat) (occ : UInt64) : UInt64 :=
  SLIDING_ATTACKS.getD (BISHOP_OFFSETS.getD sq 0 + (pext occ (BISHOP_MASK.getD sq 0)).toNat) 0
def getQueenAttacks (sq : Nat) (occ : UInt64) : UInt64 :=
  getRookAttacks sq occ ||| getBishopAttacks sq occ

end Jence
