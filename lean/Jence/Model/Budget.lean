/-
  `parse_go` (`src/main.rs`): argument scan and the thinking-time decision. The result is what is
  handed to `search`: `(depth, max_time)`, or `none` when `parse_go` returns without searching.
-/
namespace Jence

/-- Rust `str::parse::<i64>` / `<i8>`: optional sign, then one or more ASCII digits, range-checked -/
def parseRustInt (s : String) (lo hi : Int) : Option Int :=
  let cs := s.toList
  let (neg, ds) := match cs with
    | '-' :: r => (true, r)
    | '+' :: r => (false, r)
    | r => (false, r)
  if ds.isEmpty || !ds.all Char.isDigit then none else
  let n : Int := (ds.foldl (fun a c => a * 10 + (c.toNat - '0'.toNat)) 0 : Nat)
  let v := if neg then -n else n
  if lo <= v && v <= hi then some v else none

def i64lo : Int := -9223372036854775808
def i64hi : Int := 9223372036854775807

structure GoArgs where
  inc : Int := 0
  time : Int := -1
  movesToGo : Int := 30
  moveTime : Int := -1
  depth : Int := -1

inductive GoResult
  | search (depth : Int) (maxTime : Int)
  | nosearch            -- returned early (`depth` without a usable value, `random`)
  | panic               -- an `unwrap()` failed (missing or unparsable value)
  deriving Repr, DecidableEq

/-- how the argument scan can end without reaching the search -/
inductive ScanStop
  | nosearch
  | panic
  deriving Repr, DecidableEq

def ScanStop.toResult : ScanStop → GoResult
  | .nosearch => .nosearch
  | .panic => .panic

/-- `i64` division as Rust does it (truncating; division by zero and MIN / -1 panic) -/
def rustDiv (a b : Int) : Option Int :=
  if b == 0 then none else if a == i64lo && b == -1 then none else some (Int.tdiv a b)

/-- the "Decide time" block after the fix (clamped to `[0, remaining)`) -/
def decideTime (a : GoArgs) : Option Int :=
  if a.moveTime != -1 then some a.moveTime
  else if a.time != -1 then
    let remaining := a.time
    let t : Option Int :=
      if a.time > 2000 then (rustDiv a.time a.movesToGo).map fun q => q + a.inc - 100
      else if a.inc != 0 then some (a.inc - 500)
      else rustDiv a.time a.movesToGo
    t.map fun t => max (min t (remaining - 1)) 0
  else some a.time

/-- the decision as it stood before commit fd4f76d (kept for the counterexample theorems) -/
def decideTimeLegacy (a : GoArgs) : Option Int :=
  if a.moveTime != -1 then some a.moveTime
  else if a.time != -1 then
    if a.time > 2000 then (rustDiv a.time a.movesToGo).map fun q => q + a.inc - 100
    else if a.inc != 0 then some (a.inc - 500)
    else rustDiv a.time a.movesToGo
  else some a.time

/-- the argument scan; `msgs` collects the "Illegal 'go' command" lines printed on the way -/
def goScan (white : Bool) : Nat → List String → GoArgs → List String → Except (List String × ScanStop) (List String × GoArgs)
  | 0, _, a, msgs => .ok (msgs, a)
  | _, [], a, msgs => .ok (msgs, a)
  | fuel + 1, arg :: rest, a, msgs =>
    if arg == "" then goScan white fuel rest a msgs else
    let value (k : Int → GoArgs) : Except (List String × ScanStop) (List String × GoArgs) :=
      match rest with
      | [] => .error (msgs, .panic)
      | v :: rest' => match parseRustInt v i64lo i64hi with
        | none => .error (msgs, .panic)
        | some n => goScan white fuel rest' (k n) msgs
    let skip : Except (List String × ScanStop) (List String × GoArgs) := goScan white fuel (rest.drop 1) a msgs
    match arg with
    | "binc" => if !white then value (fun n => { a with inc := n }) else skip
    | "winc" => if white then value (fun n => { a with inc := n }) else skip
    | "btime" => if !white then value (fun n => { a with time := n }) else skip
    | "wtime" => if white then value (fun n => { a with time := n }) else skip
    | "movestogo" => value (fun n => { a with movesToGo := n })
    | "movetime" => value (fun n => { a with moveTime := n })
    | "depth" =>
      match rest with
      | [] => .error (msgs, .nosearch)
      | v :: rest' => match parseRustInt v (-128) 127 with
        | none => .error (msgs, .nosearch)
        | some n => goScan white fuel rest' { a with depth := n } msgs
    | "infinite" => goScan white fuel rest a msgs
    | "random" => .error (msgs, .nosearch)      -- random mover: not a search
    | _ => goScan white fuel rest a (msgs ++ [s!"Illegal 'go' command: '{arg}'"])

/-- `parse_go(args, …)` up to the call of `search`: the lines printed and what is handed to `search` -/
def parseGo (white : Bool) (args : String) : List String × GoResult :=
  let toks := args.splitOn " "
  match goScan white (toks.length + 1) toks {} [] with
  | .error r => (r.1, r.2.toResult)
  | .ok (msgs, a) => match decideTime a with
    | none => (msgs, .panic)
    | some t => (msgs, .search a.depth t)

end Jence
