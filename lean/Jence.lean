-- Root of the `Jence` library: model, specification, lemmas and property theorems.
import Jence.Gen.Consts
import Jence.Model.Search
import Jence.Model.Perft
import Jence.Model.Budget
import Jence.Spec.Rules
import Jence.Spec.Oracle
